//! lens: a rustc_private fact extractor for the static checks under /verif.
//!
//! Used as RUSTC_WRAPPER (cargo runs `lens <rustc> <args..>`).  For crates that are not
//! workspace members it execs the real rustc unchanged (redirecting only ethnum-1.5.2's
//! lib.rs to the vendored copy, see DESIGN.md 2.1.1).  For workspace members
//! (CARGO_PRIMARY_PACKAGE set) it runs the compiler in-process and, after expansion, writes
//! one fact file per crate into $LENS_OUT:
//!   <crate>.facts.jsonl   one JSON object per line: fn / adt / const / fmt records
//! Nothing in the analysed crate is executed.
#![feature(rustc_private)]
#![allow(clippy::all)]

extern crate rustc_abi;
extern crate rustc_ast;
extern crate rustc_driver;
extern crate rustc_hir;
extern crate rustc_interface;
extern crate rustc_middle;
extern crate rustc_session;
extern crate rustc_span;

use std::fmt::Write as _;
use std::os::unix::process::CommandExt;

use rustc_driver::{Callbacks, Compilation};
use rustc_hir::def::DefKind;
use rustc_hir::def_id::{DefId, LocalDefId};
use rustc_middle::mir::{
    self, AggregateKind, BasicBlock, Body, Const, Operand, Place, ProjectionElem, Rvalue,
    StatementKind, TerminatorKind,
};
use rustc_middle::ty::{self, Instance, Ty, TyCtxt, TypingEnv};
use rustc_span::Span;

mod json;
use json::esc;

fn main() {
    let args: Vec<String> = std::env::args().collect();
    if args.len() < 2 {
        eprintln!("lens: expected to be run as RUSTC_WRAPPER");
        std::process::exit(2);
    }
    let primary = std::env::var_os("CARGO_PRIMARY_PACKAGE").is_some();
    let out = std::env::var("LENS_OUT").ok();
    let crate_name = arg_after(&args, "--crate-name").unwrap_or_default();
    let is_build_script = crate_name.starts_with("build_script_");
    let has_input = args.iter().any(|a| a.ends_with(".rs"));
    if primary && out.is_some() && !is_build_script && has_input {
        let mut cb = Lens { out: out.unwrap(), crate_name };
        // run_compiler drops argv[0]; args[1] is the rustc path, which plays that role.
        rustc_driver::run_compiler(&args[1..], &mut cb);
        return;
    }
    // pass-through
    let vend = std::env::var("LENS_ETHNUM")
        .unwrap_or_else(|_| "/verif/vendor/ethnum-1.5.2/src/lib.rs".to_string());
    let mut rest: Vec<String> = Vec::new();
    for a in &args[2..] {
        if a.ends_with("/ethnum-1.5.2/src/lib.rs") && !a.starts_with("/verif/") {
            rest.push(vend.clone());
        } else {
            rest.push(a.clone());
        }
    }
    let err = std::process::Command::new(&args[1]).args(&rest).exec();
    eprintln!("lens: exec {} failed: {}", args[1], err);
    std::process::exit(2);
}

fn arg_after(args: &[String], key: &str) -> Option<String> {
    args.iter().position(|a| a == key).and_then(|i| args.get(i + 1)).cloned()
}

struct Lens {
    out: String,
    crate_name: String,
}

impl Callbacks for Lens {
    fn after_expansion<'tcx>(
        &mut self,
        _compiler: &rustc_interface::interface::Compiler,
        tcx: TyCtxt<'tcx>,
    ) -> Compilation {
        let focus = Focus::load();
        let mut buf = String::with_capacity(1 << 24);
        let cname = tcx.crate_name(rustc_hir::def_id::LOCAL_CRATE).to_string();
        let _ = writeln!(
            buf,
            "{{\"k\":\"crate\",\"name\":{},\"lens\":{}}}",
            esc(&cname),
            esc(env!("CARGO_PKG_VERSION"))
        );
        fmt_facts(tcx, &focus, &mut buf);
        adt_facts(tcx, &mut buf);
        const_facts(tcx, &mut buf);
        let mut n_fn = 0usize;
        let mut n_focus = 0usize;
        let mut n_missing = 0usize;
        for def in tcx.hir_body_owners() {
            let kind = tcx.def_kind(def);
            match kind {
                DefKind::Fn | DefKind::AssocFn | DefKind::Closure => {}
                _ => continue,
            }
            let (a, b, c) = fn_facts(tcx, def, &focus, &mut buf);
            n_fn += a;
            n_focus += b;
            n_missing += c;
        }
        let _ = writeln!(
            buf,
            "{{\"k\":\"summary\",\"fns\":{},\"focus\":{},\"missing\":{}}}",
            n_fn, n_focus, n_missing
        );
        let path = format!("{}/{}.facts.jsonl", self.out, self.crate_name);
        let tmp = format!("{}.tmp{}", path, std::process::id());
        std::fs::write(&tmp, buf).expect("lens: write facts");
        std::fs::rename(&tmp, &path).expect("lens: rename facts");
        Compilation::Continue
    }
}

/// Focus = list of source-path suffixes (one per line) whose functions get a full CFG dump.
struct Focus {
    files: Vec<String>,
}
impl Focus {
    fn load() -> Self {
        let mut files = Vec::new();
        if let Ok(p) = std::env::var("LENS_FOCUS") {
            if let Ok(s) = std::fs::read_to_string(&p) {
                for l in s.lines() {
                    let l = l.trim();
                    if !l.is_empty() && !l.starts_with('#') {
                        files.push(l.to_string());
                    }
                }
            }
        }
        Focus { files }
    }
    fn hit(&self, file: &str) -> bool {
        self.files.iter().any(|f| {
            f == "*" || if f.ends_with('/') { file.contains(f.as_str()) } else { file.ends_with(f.as_str()) }
        })
    }
}

fn uid(tcx: TyCtxt<'_>, did: DefId) -> String {
    format!("{}{}", tcx.crate_name(did.krate), tcx.def_path(did).to_string_no_crate_verbose())
}

fn span_loc(tcx: TyCtxt<'_>, sp: Span) -> (String, usize, usize, usize) {
    let sp = sp.source_callsite();
    let sm = tcx.sess.source_map();
    let lo = sm.lookup_char_pos(sp.lo());
    let hi = sm.lookup_char_pos(sp.hi());
    let file = match &lo.file.name {
        rustc_span::FileName::Real(r) => match r.local_path() {
            Some(p) => p.to_string_lossy().to_string(),
            None => format!("{:?}", r),
        },
        other => format!("{:?}", other),
    };
    (file, lo.line, lo.col.0 + 1, hi.line)
}

fn cap(mut s: String, n: usize) -> String {
    if s.len() > n {
        let mut i = n;
        while !s.is_char_boundary(i) {
            i -= 1;
        }
        s.truncate(i);
        s.push('…');
    }
    s
}

fn ty_str<'tcx>(ty: Ty<'tcx>) -> String {
    cap(ty.to_string(), 240)
}

fn ty_adt<'tcx>(tcx: TyCtxt<'tcx>, ty: Ty<'tcx>) -> Option<String> {
    let mut t = ty;
    loop {
        match t.kind() {
            ty::Ref(_, inner, _) => t = *inner,
            ty::RawPtr(inner, _) => t = *inner,
            ty::Adt(def, _) => return Some(tcx.def_path_str(def.did())),
            _ => return None,
        }
    }
}

// ---------------------------------------------------------------- fmt facts (AST)

struct FmtVisitor<'a, 'tcx> {
    tcx: TyCtxt<'tcx>,
    focus: &'a Focus,
    buf: &'a mut String,
}

impl<'a, 'tcx, 'ast> rustc_ast::visit::Visitor<'ast> for FmtVisitor<'a, 'tcx> {
    fn visit_expr(&mut self, e: &'ast rustc_ast::Expr) {
        if let rustc_ast::ExprKind::FormatArgs(fa) = &e.kind {
            let (file, line, col, _) = span_loc(self.tcx, fa.span);
            if self.focus.hit(&file) {
                let sm = self.tcx.sess.source_map();
                let mut s = String::new();
                let _ = write!(
                    s,
                    "{{\"k\":\"fmt\",\"file\":{},\"line\":{},\"col\":{},\"pieces\":[",
                    esc(&file),
                    line,
                    col
                );
                let mut first = true;
                for p in &fa.template {
                    if !first {
                        s.push(',');
                    }
                    first = false;
                    match p {
                        rustc_ast::FormatArgsPiece::Literal(sym) => {
                            let _ = write!(s, "{{\"lit\":{}}}", esc(sym.as_str()));
                        }
                        rustc_ast::FormatArgsPiece::Placeholder(ph) => {
                            let idx = match ph.argument.index {
                                Ok(i) => i as i64,
                                Err(_) => -1,
                            };
                            let width = match &ph.format_options.width {
                                Some(rustc_ast::FormatCount::Literal(w)) => *w as i64,
                                Some(_) => -2,
                                None => -1,
                            };
                            let _ = write!(
                                s,
                                "{{\"arg\":{},\"trait\":{},\"width\":{},\"zero\":{}}}",
                                idx,
                                esc(&format!("{:?}", ph.format_trait)),
                                width,
                                ph.format_options.zero_pad
                            );
                        }
                    }
                }
                s.push_str("],\"args\":[");
                let mut first = true;
                for a in fa.arguments.all_args() {
                    if !first {
                        s.push(',');
                    }
                    first = false;
                    let snip = sm.span_to_snippet(a.expr.span).unwrap_or_default();
                    let (_, al, ac, _) = span_loc(self.tcx, a.expr.span);
                    let ident = match &a.expr.kind {
                        rustc_ast::ExprKind::Path(None, p) if p.segments.len() == 1 => {
                            p.segments[0].ident.name.to_string()
                        }
                        _ => String::new(),
                    };
                    let _ = write!(
                        s,
                        "{{\"src\":{},\"ident\":{},\"line\":{},\"col\":{}}}",
                        esc(&cap(snip, 200)),
                        esc(&ident),
                        al,
                        ac
                    );
                }
                s.push_str("]}\n");
                self.buf.push_str(&s);
            }
        }
        rustc_ast::visit::walk_expr(self, e);
    }
}

fn fmt_facts<'tcx>(tcx: TyCtxt<'tcx>, focus: &Focus, buf: &mut String) {
    let steal = tcx.resolver_for_lowering();
    if steal.is_stolen() {
        let _ = writeln!(buf, "{{\"k\":\"fmt_unavailable\"}}");
        return;
    }
    let guard = steal.borrow();
    let krate: &rustc_ast::Crate = &guard.1;
    let mut v = FmtVisitor { tcx, focus, buf };
    rustc_ast::visit::walk_crate(&mut v, krate);
}

// ---------------------------------------------------------------- adt / const facts

fn adt_facts<'tcx>(tcx: TyCtxt<'tcx>, buf: &mut String) {
    for ld in tcx.hir_crate_items(()).definitions() {
        let kind = tcx.def_kind(ld);
        if !matches!(kind, DefKind::Struct | DefKind::Enum) {
            continue;
        }
        let did = ld.to_def_id();
        let adt = tcx.adt_def(did);
        let (file, line, _, _) = span_loc(tcx, tcx.def_span(did));
        let mut s = String::new();
        let _ = write!(
            s,
            "{{\"k\":\"adt\",\"id\":{},\"path\":{},\"enum\":{},\"file\":{},\"line\":{},\"variants\":[",
            esc(&uid(tcx, did)),
            esc(&tcx.def_path_str(did)),
            adt.is_enum(),
            esc(&file),
            line
        );
        let mut first = true;
        for (vi, v) in adt.variants().iter_enumerated() {
            if !first {
                s.push(',');
            }
            first = false;
            let discr = if adt.is_enum() {
                format!("{}", adt.discriminant_for_variant(tcx, vi).val)
            } else {
                "0".to_string()
            };
            let _ = write!(s, "{{\"name\":{},\"discr\":{},\"fields\":[", esc(v.name.as_str()), discr);
            let mut f1 = true;
            for f in v.fields.iter() {
                if !f1 {
                    s.push(',');
                }
                f1 = false;
                let fty = tcx.type_of(f.did).instantiate_identity().skip_norm_wip();
                let _ = write!(s, "{{\"name\":{},\"ty\":{}}}", esc(f.name.as_str()), esc(&ty_str(fty)));
            }
            s.push_str("]}");
        }
        s.push_str("]}\n");
        buf.push_str(&s);
    }
}

fn const_facts<'tcx>(tcx: TyCtxt<'tcx>, buf: &mut String) {
    for ld in tcx.hir_crate_items(()).definitions() {
        let kind = tcx.def_kind(ld);
        if !matches!(kind, DefKind::Const { .. } | DefKind::AssocConst { .. } | DefKind::Static { .. }) {
            continue;
        }
        let did = ld.to_def_id();
        if tcx.generics_of(did).requires_monomorphization(tcx) {
            continue;
        }
        if matches!(kind, DefKind::AssocConst { .. }) {
            // trait-declared assoc consts without a body cannot be evaluated
            if tcx.trait_of_assoc(did).is_some() {
                continue;
            }
        }
        let ty = tcx.type_of(did).instantiate_identity().skip_norm_wip();
        let interesting = ty.is_integral()
            || ty.is_bool()
            || ty.is_char()
            || matches!(ty.kind(), ty::Ref(_, inner, _) if inner.is_str());
        if !interesting {
            continue;
        }
        let val = if matches!(kind, DefKind::Static { .. }) {
            None
        } else {
            eval_const_item(tcx, did, ty)
        };
        let (file, line, _, _) = span_loc(tcx, tcx.def_span(did));
        let _ = writeln!(
            buf,
            "{{\"k\":\"const\",\"id\":{},\"path\":{},\"ty\":{},\"val\":{},\"file\":{},\"line\":{}}}",
            esc(&uid(tcx, did)),
            esc(&tcx.def_path_str(did)),
            esc(&ty_str(ty)),
            match val {
                Some(v) => v,
                None => "null".to_string(),
            },
            esc(&file),
            line
        );
    }
}

fn eval_const_item<'tcx>(tcx: TyCtxt<'tcx>, did: DefId, ty: Ty<'tcx>) -> Option<String> {
    let cv = tcx.const_eval_poly(did).ok()?;
    const_value_json(tcx, cv, ty)
}

fn const_value_json<'tcx>(tcx: TyCtxt<'tcx>, cv: mir::ConstValue, ty: Ty<'tcx>) -> Option<String> {
    match cv {
        mir::ConstValue::Scalar(mir::interpret::Scalar::Int(si)) => Some(scalar_json(si, ty)),
        mir::ConstValue::Slice { alloc_id, meta } => {
            if let ty::Ref(_, inner, _) = ty.kind() {
                if inner.is_str() {
                    let alloc = tcx.global_alloc(alloc_id).unwrap_memory();
                    let a = alloc.inner();
                    let bytes = a.inspect_with_uninit_and_ptr_outside_interpreter(0..meta as usize);
                    return Some(esc(&String::from_utf8_lossy(bytes)));
                }
            }
            None
        }
        _ => None,
    }
}

fn scalar_json<'tcx>(si: ty::ScalarInt, ty: Ty<'tcx>) -> String {
    let size = si.size();
    if ty.is_bool() {
        return if si.to_uint(size) != 0 { "true".into() } else { "false".into() };
    }
    if ty.is_signed() {
        // as string: python ints are unbounded, JSON numbers are fine too
        format!("{}", si.to_int(size))
    } else {
        format!("{}", si.to_uint(size))
    }
}

// ---------------------------------------------------------------- fn facts (MIR)

struct Cx<'tcx> {
    tcx: TyCtxt<'tcx>,
    env: TypingEnv<'tcx>,
}

fn fn_facts<'tcx>(tcx: TyCtxt<'tcx>, def: LocalDefId, focus: &Focus, buf: &mut String) -> (usize, usize, usize) {
    let did = def.to_def_id();
    let (file, line, _col, hi_line) = span_loc(tcx, tcx.def_span(did));
    let body_span = tcx.hir_span_with_body(tcx.local_def_id_to_hir_id(def));
    let (_, bline, _, bhi) = span_loc(tcx, body_span);
    let _ = hi_line;
    let is_focus = focus.hit(&file);
    let kind = tcx.def_kind(def);

    // Prefer mir_promoted (never stolen during type-check/borrowck); fall back to others.
    let promoted = tcx.mir_promoted(def);
    let mut s = String::new();
    let kind_s = match kind {
        DefKind::Fn => "fn",
        DefKind::AssocFn => "method",
        DefKind::Closure => {
            if tcx.is_coroutine(did) {
                "coroutine"
            } else {
                "closure"
            }
        }
        _ => "other",
    };
    let parent = if kind == DefKind::Closure {
        let p = tcx.local_parent(def);
        esc(&uid(tcx, p.to_def_id()))
    } else {
        "null".to_string()
    };
    let vis = if matches!(kind, DefKind::Fn | DefKind::AssocFn) {
        let v = tcx.visibility(did);
        if v.is_public() { "pub" } else { "restricted" }
    } else {
        "n/a"
    };
    // trait impl info
    let mut impl_trait = "null".to_string();
    let mut impl_self = "null".to_string();
    let mut trait_decl = "null".to_string();
    if kind == DefKind::AssocFn {
        let parent = tcx.parent(did);
        match tcx.def_kind(parent) {
            DefKind::Impl { of_trait } => {
                let self_ty = tcx.type_of(parent).instantiate_identity().skip_norm_wip();
                impl_self = esc(&ty_str(self_ty));
                if of_trait {
                    let tr = tcx.impl_trait_ref(parent).instantiate_identity().skip_norm_wip();
                    impl_trait = esc(&tcx.def_path_str(tr.def_id));
                }
            }
            DefKind::Trait => {
                trait_decl = esc(&tcx.def_path_str(parent));
            }
            _ => {}
        }
    }
    let _ = write!(
        s,
        "{{\"k\":\"fn\",\"id\":{},\"path\":{},\"kind\":\"{}\",\"parent\":{},\"vis\":\"{}\",\"impl_trait\":{},\"impl_self\":{},\"trait_decl\":{},\"file\":{},\"line\":{},\"body_lo\":{},\"body_hi\":{},\"async\":{},\"focus\":{}",
        esc(&uid(tcx, did)),
        esc(&tcx.def_path_str(did)),
        kind_s,
        parent,
        vis,
        impl_trait,
        impl_self,
        trait_decl,
        esc(&file),
        line,
        bline,
        bhi,
        tcx.asyncness(did).is_async(),
        is_focus
    );

    let steal = &promoted.0;
    let mut missing = 0;
    if steal.is_stolen() {
        // Fall back to the later query result.
        let b = tcx.mir_drops_elaborated_and_const_checked(def);
        if b.is_stolen() {
            let _ = write!(s, ",\"missing\":true}}\n");
            buf.push_str(&s);
            return (1, is_focus as usize, 1);
        } else {
            let body = b.borrow();
            let _ = write!(s, ",\"src\":\"elaborated\"");
            body_facts(tcx, def, &body, is_focus, &mut s);
        }
    } else {
        let body = steal.borrow();
        let _ = write!(s, ",\"src\":\"promoted\"");
        body_facts(tcx, def, &body, is_focus, &mut s);
        if is_focus {
            let proms = promoted.1.borrow();
            s.push_str(",\"promoted\":[");
            let mut first = true;
            for pb in proms.iter() {
                if !first {
                    s.push(',');
                }
                first = false;
                s.push('{');
                s.push_str("\"x\":0");
                body_facts(tcx, def, pb, true, &mut s);
                s.push('}');
            }
            s.push(']');
        }
    }
    let _ = &mut missing;
    s.push_str("}\n");
    buf.push_str(&s);
    (1, is_focus as usize, missing)
}

fn body_facts<'tcx>(tcx: TyCtxt<'tcx>, def: LocalDefId, body: &Body<'tcx>, full: bool, s: &mut String) {
    let cx = Cx { tcx, env: TypingEnv::post_analysis(tcx, def.to_def_id()) };
    let _ = write!(s, ",\"argc\":{}", body.arg_count);
    // calls (all functions) ---------------------------------------------------
    s.push_str(",\"calls\":[");
    let mut first = true;
    for (bb, data) in body.basic_blocks.iter_enumerated() {
        let Some(term) = &data.terminator else { continue };
        if let TerminatorKind::Call { func, .. } | TerminatorKind::TailCall { func, .. } = &term.kind {
            if !first {
                s.push(',');
            }
            first = false;
            let (_, l, c, _) = span_loc(tcx, term.source_info.span);
            let _ = write!(s, "{{\"bb\":{},\"line\":{},\"col\":{},\"exp\":{},", bb.index(), l, c, term.source_info.span.from_expansion());
            callee_json(&cx, body, func, s);
            s.push('}');
        }
    }
    s.push(']');
    // fn items mentioned as values (fn pointers / fn item arguments) -----------
    s.push_str(",\"fnrefs\":[");
    let mut first = true;
    for (bb, data) in body.basic_blocks.iter_enumerated() {
        let mut note = |op: &Operand<'tcx>, line: usize, s: &mut String| {
            if let Operand::Constant(c) = op {
                if let ty::FnDef(did, _) = c.const_.ty().kind() {
                    if !first {
                        s.push(',');
                    }
                    first = false;
                    let _ = write!(s, "{{\"bb\":{},\"line\":{},\"id\":{},\"p\":{}}}", bb.index(), line, esc(&uid(tcx, *did)), esc(&tcx.def_path_str(*did)));
                }
            }
        };
        for st in &data.statements {
            if let StatementKind::Assign(b) = &st.kind {
                let (_, l, _, _) = span_loc(tcx, st.source_info.span);
                match &b.1 {
                    Rvalue::Use(op, ..) | Rvalue::Cast(_, op, _) => note(op, l, s),
                    Rvalue::Aggregate(_, ops) => {
                        for op in ops.iter() {
                            note(op, l, s)
                        }
                    }
                    _ => {}
                }
            }
        }
        if let Some(term) = &data.terminator {
            if let TerminatorKind::Call { args, .. } = &term.kind {
                let (_, l, _, _) = span_loc(tcx, term.source_info.span);
                for a in args.iter() {
                    note(&a.node, l, s)
                }
            }
        }
    }
    s.push(']');
    if !full {
        return;
    }
    // locals -------------------------------------------------------------------
    s.push_str(",\"locals\":[");
    let mut names: Vec<Option<String>> = vec![None; body.local_decls.len()];
    let mut upvars: Vec<(String, String)> = Vec::new();
    for vdi in &body.var_debug_info {
        if let mir::VarDebugInfoContents::Place(p) = &vdi.value {
            if p.projection.is_empty() {
                names[p.local.index()] = Some(vdi.name.to_string());
            } else {
                let mut ps = String::new();
                place_json(&cx, body, p, &mut ps);
                upvars.push((vdi.name.to_string(), ps));
            }
        }
    }
    for (i, (_l, d)) in body.local_decls.iter_enumerated().enumerate() {
        if i > 0 {
            s.push(',');
        }
        let adt = ty_adt(tcx, d.ty);
        let _ = write!(
            s,
            "{{\"ty\":{},\"adt\":{},\"name\":{}}}",
            esc(&ty_str(d.ty)),
            match adt {
                Some(a) => esc(&a),
                None => "null".into(),
            },
            match &names[i] {
                Some(n) => esc(n),
                None => "null".into(),
            }
        );
    }
    s.push(']');
    s.push_str(",\"upvars\":[");
    for (i, (n, p)) in upvars.iter().enumerate() {
        if i > 0 {
            s.push(',');
        }
        let _ = write!(s, "{{\"name\":{},\"place\":{}}}", esc(n), p);
    }
    s.push(']');
    // blocks ---------------------------------------------------------------------
    s.push_str(",\"blocks\":[");
    for (bb, data) in body.basic_blocks.iter_enumerated() {
        if bb.index() > 0 {
            s.push(',');
        }
        let _ = write!(s, "{{\"cleanup\":{},\"st\":[", data.is_cleanup);
        let mut first = true;
        for st in &data.statements {
            let mut t = String::new();
            if stmt_json(&cx, body, st, &mut t) {
                if !first {
                    s.push(',');
                }
                first = false;
                s.push_str(&t);
            }
        }
        s.push_str("],\"term\":");
        match &data.terminator {
            Some(t) => term_json(&cx, body, t, s),
            None => s.push_str("null"),
        }
        s.push('}');
    }
    s.push(']');
}

fn bbi(b: BasicBlock) -> usize {
    b.index()
}

fn place_json<'tcx>(cx: &Cx<'tcx>, body: &Body<'tcx>, p: &Place<'tcx>, s: &mut String) {
    let _ = write!(s, "[{}", p.local.index());
    let mut pty = mir::PlaceTy::from_ty(body.local_decls[p.local].ty);
    for elem in p.projection.iter() {
        s.push(',');
        match elem {
            ProjectionElem::Deref => s.push_str("\"*\""),
            ProjectionElem::Field(f, _) => {
                // resolve field name
                let name = field_name(cx.tcx, pty, f);
                let _ = write!(s, "{{\"f\":{},\"i\":{}}}", esc(&name), f.index());
            }
            ProjectionElem::Downcast(sym, vi) => {
                let name = match sym {
                    Some(sy) => sy.to_string(),
                    None => format!("#{}", vi.index()),
                };
                let _ = write!(s, "{{\"d\":{},\"vi\":{}}}", esc(&name), vi.index());
            }
            ProjectionElem::Index(l) => {
                let _ = write!(s, "{{\"idx\":{}}}", l.index());
            }
            ProjectionElem::ConstantIndex { offset, from_end, .. } => {
                let _ = write!(s, "{{\"cidx\":{},\"from_end\":{}}}", offset, from_end);
            }
            ProjectionElem::Subslice { from, to, from_end } => {
                let _ = write!(s, "{{\"sub\":[{},{}],\"from_end\":{}}}", from, to, from_end);
            }
            ProjectionElem::OpaqueCast(_) => s.push_str("\"opaque\""),
            ProjectionElem::UnwrapUnsafeBinder(_) => s.push_str("\"unbind\""),
        }
        pty = pty.projection_ty(cx.tcx, elem);
    }
    s.push(']');
}

fn field_name<'tcx>(tcx: TyCtxt<'tcx>, pty: mir::PlaceTy<'tcx>, f: rustc_abi::FieldIdx) -> String {
    match pty.ty.kind() {
        ty::Adt(adt, _) => {
            let v = match pty.variant_index {
                Some(vi) => adt.variant(vi),
                None => {
                    if adt.is_enum() {
                        return format!("{}", f.index());
                    }
                    adt.non_enum_variant()
                }
            };
            v.fields[f].name.to_string()
        }
        ty::Closure(did, _) | ty::Coroutine(did, _) | ty::CoroutineClosure(did, _) => {
            // captured variable name
            if let Some(ld) = did.as_local() {
                let caps = tcx.closure_captures(ld);
                if let Some(c) = caps.get(f.index()) {
                    return format!("^{}", c.to_symbol());
                }
            }
            format!("{}", f.index())
        }
        _ => format!("{}", f.index()),
    }
}

fn const_json<'tcx>(cx: &Cx<'tcx>, c: &Const<'tcx>, s: &mut String) {
    let tcx = cx.tcx;
    let ty = c.ty();
    match ty.kind() {
        ty::FnDef(did, args) => {
            let _ = write!(s, "{{\"fn\":{},\"p\":{}", esc(&uid(tcx, *did)), esc(&tcx.def_path_str(*did)));
            if let Ok(Some(inst)) = Instance::try_resolve(tcx, cx.env, *did, args) {
                let rd = inst.def_id();
                if rd != *did {
                    let _ = write!(s, ",\"rfn\":{},\"rp\":{}", esc(&uid(tcx, rd)), esc(&tcx.def_path_str(rd)));
                }
            }
            s.push('}');
            return;
        }
        _ => {}
    }
    // named const item?
    let mut cdef = None;
    let mut promoted = None;
    if let Const::Unevaluated(uv, _) = c {
        if let Some(p) = uv.promoted {
            promoted = Some(p.index());
        } else {
            cdef = Some(uv.def);
        }
    }
    let mut val: Option<String> = None;
    if ty.is_integral() || ty.is_bool() || ty.is_char() {
        if promoted.is_none() {
            if let Some(si) = c.try_eval_scalar_int(tcx, cx.env) {
                val = Some(scalar_json(si, ty));
            }
        }
    } else if let ty::Ref(_, inner, _) = ty.kind() {
        if inner.is_str() && promoted.is_none() {
            if let Ok(cv) = c.eval(tcx, cx.env, rustc_span::DUMMY_SP) {
                val = const_value_json(tcx, cv, ty);
            }
        }
    }
    let _ = write!(s, "{{\"c\":{},\"ty\":{}", esc(&cap(format!("{}", c), 160)), esc(&ty_str(ty)));
    if let Some(v) = val {
        let _ = write!(s, ",\"v\":{}", v);
    }
    if let Some(d) = cdef {
        let _ = write!(s, ",\"cdef\":{}", esc(&tcx.def_path_str(d)));
    }
    if let Some(p) = promoted {
        let _ = write!(s, ",\"promoted\":{}", p);
    }
    s.push('}');
}

fn op_json<'tcx>(cx: &Cx<'tcx>, body: &Body<'tcx>, op: &Operand<'tcx>, s: &mut String) {
    match op {
        Operand::Copy(p) => {
            s.push_str("{\"cp\":");
            place_json(cx, body, p, s);
            s.push('}');
        }
        Operand::Move(p) => {
            s.push_str("{\"mv\":");
            place_json(cx, body, p, s);
            s.push('}');
        }
        Operand::Constant(c) => const_json(cx, &c.const_, s),
        #[allow(unreachable_patterns)]
        _ => {
            let _ = write!(s, "{{\"c\":{}}}", esc(&cap(format!("{:?}", op), 160)));
        }
    }
}

fn callee_json<'tcx>(cx: &Cx<'tcx>, body: &Body<'tcx>, func: &Operand<'tcx>, s: &mut String) {
    let tcx = cx.tcx;
    let fty = func.ty(&body.local_decls, tcx);
    match fty.kind() {
        ty::FnDef(did, args) => {
            let did = *did;
            let _ = write!(
                s,
                "\"id\":{},\"p\":{},\"full\":{}",
                esc(&uid(tcx, did)),
                esc(&tcx.def_path_str(did)),
                esc(&cap(tcx.def_path_str_with_args(did, args), 300))
            );
            // trait method? record trait and self type
            if let Some(tr) = tcx.trait_of_assoc(did) {
                let self_ty = args.type_at(0);
                let _ = write!(s, ",\"trait\":{},\"self\":{}", esc(&tcx.def_path_str(tr)), esc(&ty_str(self_ty)));
            }
            match Instance::try_resolve(tcx, cx.env, did, args) {
                Ok(Some(inst)) => {
                    let rd = inst.def_id();
                    let rk = match inst.def {
                        ty::InstanceKind::Item(_) => "item",
                        ty::InstanceKind::Virtual(..) => "virtual",
                        ty::InstanceKind::ClosureOnceShim { .. } => "closure_once",
                        ty::InstanceKind::FnPtrShim(..) => "fnptr_shim",
                        ty::InstanceKind::Intrinsic(_) => "intrinsic",
                        ty::InstanceKind::ReifyShim(..) => "reify",
                        ty::InstanceKind::CloneShim(..) => "clone_shim",
                        ty::InstanceKind::DropGlue(..) => "drop_glue",
                        _ => "shim",
                    };
                    let _ = write!(s, ",\"rid\":{},\"rp\":{},\"rk\":\"{}\"", esc(&uid(tcx, rd)), esc(&tcx.def_path_str(rd)), rk);
                }
                _ => {
                    let _ = write!(s, ",\"rid\":null,\"rk\":\"unresolved\"");
                }
            }
        }
        ty::FnPtr(..) => {
            s.push_str("\"id\":null,\"p\":\"<fnptr>\",\"rk\":\"fnptr\",\"via\":");
            op_json(cx, body, func, s);
        }
        _ => {
            let _ = write!(s, "\"id\":null,\"p\":{},\"rk\":\"other\"", esc(&ty_str(fty)));
        }
    }
}

fn rvalue_json<'tcx>(cx: &Cx<'tcx>, body: &Body<'tcx>, rv: &Rvalue<'tcx>, s: &mut String) {
    let tcx = cx.tcx;
    match rv {
        Rvalue::Use(op, ..) => {
            s.push_str("{\"r\":\"use\",\"op\":");
            op_json(cx, body, op, s);
            s.push('}');
        }
        Rvalue::CopyForDeref(p) => {
            s.push_str("{\"r\":\"use\",\"op\":{\"cp\":");
            place_json(cx, body, p, s);
            s.push_str("}}");
        }
        Rvalue::Ref(_, bk, p) => {
            let m = matches!(bk, mir::BorrowKind::Mut { .. });
            let _ = write!(s, "{{\"r\":\"ref\",\"mut\":{},\"place\":", m);
            place_json(cx, body, p, s);
            s.push('}');
        }
        Rvalue::RawPtr(_, p) => {
            s.push_str("{\"r\":\"rawptr\",\"place\":");
            place_json(cx, body, p, s);
            s.push('}');
        }
        Rvalue::Cast(kind, op, ty) => {
            let _ = write!(s, "{{\"r\":\"cast\",\"kind\":{},\"ty\":{},\"op\":", esc(&cap(format!("{:?}", kind), 60)), esc(&ty_str(*ty)));
            op_json(cx, body, op, s);
            s.push('}');
        }
        Rvalue::BinaryOp(op, ab) => {
            let _ = write!(s, "{{\"r\":\"bin\",\"op\":\"{:?}\",\"a\":", op);
            op_json(cx, body, &ab.0, s);
            s.push_str(",\"b\":");
            op_json(cx, body, &ab.1, s);
            s.push('}');
        }
        Rvalue::UnaryOp(op, a) => {
            let _ = write!(s, "{{\"r\":\"un\",\"op\":\"{:?}\",\"a\":", op);
            op_json(cx, body, a, s);
            s.push('}');
        }
        Rvalue::Discriminant(p) => {
            let pty = p.ty(&body.local_decls, tcx).ty;
            let adt = ty_adt(tcx, pty);
            let _ = write!(
                s,
                "{{\"r\":\"discr\",\"adt\":{},\"place\":",
                match adt {
                    Some(a) => esc(&a),
                    None => "null".into(),
                }
            );
            place_json(cx, body, p, s);
            // variant table (value -> name) so rules need no cross-crate adt lookup
            if let ty::Adt(def, _) = pty.kind() {
                if def.is_enum() {
                    s.push_str(",\"vars\":{");
                    let mut first = true;
                    for (vi, v) in def.variants().iter_enumerated() {
                        if !first {
                            s.push(',');
                        }
                        first = false;
                        let d = def.discriminant_for_variant(tcx, vi).val;
                        let _ = write!(s, "\"{}\":{}", d, esc(v.name.as_str()));
                    }
                    s.push('}');
                }
            }
            s.push('}');
        }
        Rvalue::Aggregate(kind, ops) => {
            s.push_str("{\"r\":\"agg\",");
            match &**kind {
                AggregateKind::Adt(did, vi, _, _, active) => {
                    let adt = tcx.adt_def(*did);
                    let v = adt.variant(*vi);
                    let _ = write!(s, "\"adt\":{},\"variant\":{},\"fields\":[", esc(&tcx.def_path_str(*did)), esc(v.name.as_str()));
                    if let Some(a) = active {
                        let _ = write!(s, "{}", esc(v.fields[*a].name.as_str()));
                    } else {
                        for (i, f) in v.fields.iter().enumerate() {
                            if i > 0 {
                                s.push(',');
                            }
                            let _ = write!(s, "{}", esc(f.name.as_str()));
                        }
                    }
                    s.push_str("],");
                }
                AggregateKind::Tuple => s.push_str("\"tuple\":true,"),
                AggregateKind::Array(_) => s.push_str("\"array\":true,"),
                AggregateKind::Closure(did, _) | AggregateKind::Coroutine(did, _) | AggregateKind::CoroutineClosure(did, _) => {
                    let _ = write!(s, "\"closure\":{},", esc(&uid(tcx, *did)));
                    // capture names
                    if let Some(ld) = did.as_local() {
                        s.push_str("\"fields\":[");
                        for (i, c) in tcx.closure_captures(ld).iter().enumerate() {
                            if i > 0 {
                                s.push(',');
                            }
                            let _ = write!(s, "{}", esc(&format!("^{}", c.to_symbol())));
                        }
                        s.push_str("],");
                    }
                }
                AggregateKind::RawPtr(..) => s.push_str("\"rawptr\":true,"),
            }
            s.push_str("\"ops\":[");
            for (i, op) in ops.iter().enumerate() {
                if i > 0 {
                    s.push(',');
                }
                op_json(cx, body, op, s);
            }
            s.push_str("]}");
        }
        Rvalue::Repeat(op, _) => {
            s.push_str("{\"r\":\"repeat\",\"op\":");
            op_json(cx, body, op, s);
            s.push('}');
        }
        other => {
            let _ = write!(s, "{{\"r\":\"other\",\"s\":{}}}", esc(&cap(format!("{:?}", other), 160)));
        }
    }
}

fn stmt_json<'tcx>(cx: &Cx<'tcx>, body: &Body<'tcx>, st: &mir::Statement<'tcx>, s: &mut String) -> bool {
    match &st.kind {
        StatementKind::Assign(b) => {
            let (_, l, _, _) = span_loc(cx.tcx, st.source_info.span);
            let _ = write!(s, "{{\"ln\":{},\"lhs\":", l);
            place_json(cx, body, &b.0, s);
            s.push_str(",\"rv\":");
            rvalue_json(cx, body, &b.1, s);
            s.push('}');
            true
        }
        StatementKind::SetDiscriminant { place, variant_index } => {
            let (_, l, _, _) = span_loc(cx.tcx, st.source_info.span);
            let _ = write!(s, "{{\"ln\":{},\"setdiscr\":{},\"lhs\":", l, variant_index.index());
            place_json(cx, body, place, s);
            s.push('}');
            true
        }
        _ => false,
    }
}

fn term_json<'tcx>(cx: &Cx<'tcx>, body: &Body<'tcx>, t: &mir::Terminator<'tcx>, s: &mut String) {
    let (_, l, c, _) = span_loc(cx.tcx, t.source_info.span);
    let _ = write!(s, "{{\"ln\":{},\"col\":{},", l, c);
    match &t.kind {
        TerminatorKind::Goto { target } => {
            let _ = write!(s, "\"t\":\"goto\",\"to\":{}", bbi(*target));
        }
        TerminatorKind::SwitchInt { discr, targets } => {
            s.push_str("\"t\":\"switch\",\"on\":");
            op_json(cx, body, discr, s);
            s.push_str(",\"arms\":[");
            let mut first = true;
            for (v, bb) in targets.iter() {
                if !first {
                    s.push(',');
                }
                first = false;
                let _ = write!(s, "[{},{}]", v, bbi(bb));
            }
            let _ = write!(s, "],\"else\":{}", bbi(targets.otherwise()));
        }
        TerminatorKind::Return => s.push_str("\"t\":\"return\""),
        TerminatorKind::Unreachable => s.push_str("\"t\":\"unreachable\""),
        TerminatorKind::UnwindResume => s.push_str("\"t\":\"resume\""),
        TerminatorKind::UnwindTerminate(_) => s.push_str("\"t\":\"terminate\""),
        TerminatorKind::CoroutineDrop => s.push_str("\"t\":\"cdrop\""),
        TerminatorKind::Drop { place, target, .. } => {
            s.push_str("\"t\":\"drop\",\"place\":");
            place_json(cx, body, place, s);
            let _ = write!(s, ",\"to\":{}", bbi(*target));
        }
        TerminatorKind::Call { func, args, destination, target, .. } => {
            s.push_str("\"t\":\"call\",");
            callee_json(cx, body, func, s);
            s.push_str(",\"args\":[");
            for (i, a) in args.iter().enumerate() {
                if i > 0 {
                    s.push(',');
                }
                op_json(cx, body, &a.node, s);
            }
            s.push_str("],\"dest\":");
            place_json(cx, body, destination, s);
            match target {
                Some(tg) => {
                    let _ = write!(s, ",\"to\":{}", bbi(*tg));
                }
                None => s.push_str(",\"to\":null"),
            }
            let _ = write!(s, ",\"exp\":{}", t.source_info.span.from_expansion());
        }
        TerminatorKind::TailCall { func, args, .. } => {
            s.push_str("\"t\":\"tailcall\",");
            callee_json(cx, body, func, s);
            s.push_str(",\"args\":[");
            for (i, a) in args.iter().enumerate() {
                if i > 0 {
                    s.push(',');
                }
                op_json(cx, body, &a.node, s);
            }
            s.push(']');
        }
        TerminatorKind::Assert { cond, expected, target, .. } => {
            s.push_str("\"t\":\"assert\",\"cond\":");
            op_json(cx, body, cond, s);
            let _ = write!(s, ",\"expected\":{},\"to\":{}", expected, bbi(*target));
        }
        TerminatorKind::Yield { value, resume, resume_arg, drop } => {
            s.push_str("\"t\":\"yield\",\"value\":");
            op_json(cx, body, value, s);
            let _ = write!(s, ",\"to\":{},\"resume_arg\":", bbi(*resume));
            place_json(cx, body, resume_arg, s);
            match drop {
                Some(d) => {
                    let _ = write!(s, ",\"drop\":{}", bbi(*d));
                }
                None => s.push_str(",\"drop\":null"),
            }
        }
        TerminatorKind::FalseEdge { real_target, imaginary_target } => {
            let _ = write!(s, "\"t\":\"goto\",\"to\":{},\"imag\":{}", bbi(*real_target), bbi(*imaginary_target));
        }
        TerminatorKind::FalseUnwind { real_target, .. } => {
            let _ = write!(s, "\"t\":\"goto\",\"to\":{},\"loop\":true", bbi(*real_target));
        }
        TerminatorKind::InlineAsm { .. } => s.push_str("\"t\":\"asm\""),
    }
    s.push('}');
}

//! Minimal JSON string escaping (no dependencies).
use std::fmt::Write;

pub fn esc(s: &str) -> String {
    let mut o = String::with_capacity(s.len() + 2);
    o.push('"');
    for ch in s.chars() {
        match ch {
            '"' => o.push_str("\\\""),
            '\\' => o.push_str("\\\\"),
            '\n' => o.push_str("\\n"),
            '\r' => o.push_str("\\r"),
            '\t' => o.push_str("\\t"),
            c if (c as u32) < 0x20 => {
                let _ = write!(o, "\\u{:04x}", c as u32);
            }
            c => o.push(c),
        }
    }
    o.push('"');
    o
}

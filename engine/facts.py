"""Fact database: loads the lens fact files and provides indexes used by the rules."""
import json
import os
import pickle
import re
from collections import defaultdict

from . import extract


HEAVY_KEYS = ("blocks", "locals", "upvars", "promoted")


def _shard_name(file):
    import hashlib
    return hashlib.sha1(file.encode()).hexdigest()[:16] + ".pickle"


class Fn:
    __slots__ = ("r", "db", "_cfg")

    def __init__(self, r, db):
        self.r = r
        self.db = db
        self._cfg = None

    id = property(lambda s: s.r["id"])
    path = property(lambda s: s.r["path"])
    kind = property(lambda s: s.r["kind"])
    file = property(lambda s: s.r["file"])
    line = property(lambda s: s.r["line"])
    parent = property(lambda s: s.r.get("parent"))
    calls = property(lambda s: s.r.get("calls", []))
    focus = property(lambda s: bool(s.r.get("focus")))

    def _need(self):
        if self.r.get("heavy"):
            self.db._heavy(self)

    @property
    def blocks(self):
        self._need()
        return self.r["blocks"]

    @property
    def locals(self):
        self._need()
        return self.r["locals"]

    @property
    def upvars(self):
        self._need()
        return self.r.get("upvars", [])

    @property
    def promoted(self):
        self._need()
        return self.r.get("promoted", [])
    crate = property(lambda s: s.r["id"].split("::", 1)[0])

    def loc(self, line=None):
        return "%s:%s" % (self.file, line if line is not None else self.line)

    def __repr__(self):
        return "<Fn %s>" % self.id

    @property
    def cfg(self):
        if self._cfg is None:
            from .cfg import CFG
            self._cfg = CFG(self)
        return self._cfg

    def root(self):
        """Outermost enclosing fn item (for closures / async bodies)."""
        f = self
        while f.parent and f.parent in self.db.fns:
            f = self.db.fns[f.parent]
        return f

    def children(self):
        return self.db.children.get(self.id, [])

    def family(self):
        """This fn plus all nested closures/coroutines (transitively)."""
        out = [self]
        i = 0
        while i < len(out):
            out.extend(out[i].children())
            i += 1
        return out


class DB:
    def __init__(self, stamp, crates=None):
        self.stamp = stamp
        self.fns = {}
        self.adts = {}
        self.consts = {}
        self.fmts = []
        self.children = defaultdict(list)
        self.by_path = defaultdict(list)
        self.summary = {}
        names = crates or stamp["crates"]
        for c in names:
            self._load_crate(c)
        for f in self.fns.values():
            if f.parent:
                self.children[f.parent].append(f)
        self._callers = None
        self._shards = {}

    def _load_crate(self, c):
        """Load the light part (headers, calls, adts, consts, fmts); CFG bodies are sharded by
        source file and loaded on demand (Fn.blocks)."""
        src = os.path.join(extract.FACTS, c + ".facts.jsonl")
        shard_dir = os.path.join(extract.FACTS, "shards", c)
        pk = os.path.join(shard_dir, "light.pickle")
        recs = None
        if os.path.exists(pk) and os.path.getmtime(pk) >= os.path.getmtime(src):
            try:
                with open(pk, "rb") as f:
                    recs = pickle.load(f)
            except Exception:
                recs = None
        if recs is None:
            recs = []
            heavy = defaultdict(dict)
            with open(src) as f:
                for line in f:
                    r = json.loads(line)
                    if r["k"] == "fn" and "blocks" in r:
                        h = {}
                        for key in HEAVY_KEYS:
                            if key in r:
                                h[key] = r.pop(key)
                        r["heavy"] = True
                        heavy[r["file"]][r["id"]] = h
                    recs.append(r)
            tmpd = shard_dir + ".tmp%d" % os.getpid()
            os.makedirs(tmpd, exist_ok=True)
            for file, m in heavy.items():
                with open(os.path.join(tmpd, _shard_name(file)), "wb") as f:
                    pickle.dump(m, f, protocol=pickle.HIGHEST_PROTOCOL)
            with open(os.path.join(tmpd, "light.pickle"), "wb") as f:
                pickle.dump(recs, f, protocol=pickle.HIGHEST_PROTOCOL)
            import shutil
            shutil.rmtree(shard_dir, ignore_errors=True)
            os.makedirs(os.path.dirname(shard_dir), exist_ok=True)
            try:
                os.replace(tmpd, shard_dir)
            except OSError:
                shutil.rmtree(tmpd, ignore_errors=True)
        for r in recs:
            k = r["k"]
            if k == "fn":
                fn = Fn(r, self)
                self.fns[r["id"]] = fn
                self.by_path[r["path"]].append(fn)
            elif k == "adt":
                self.adts[r["path"]] = r
            elif k == "const":
                self.consts[r["path"]] = r
            elif k == "fmt":
                self.fmts.append(r)
            elif k == "summary":
                self.summary[c] = r
            elif k == "fmt_unavailable":
                self.summary.setdefault("fmt_unavailable", []).append(c)

    def _heavy(self, fn):
        key = (fn.crate, fn.file)
        m = self._shards.get(key)
        if m is None:
            path = os.path.join(extract.FACTS, "shards", fn.crate, _shard_name(fn.file))
            with open(path, "rb") as f:
                m = pickle.load(f)
            self._shards[key] = m
        fn.r.update(m[fn.id])
        fn.r["heavy"] = False

    # ---- lookup helpers -------------------------------------------------------
    def fn(self, fid):
        """Exact lookup by unique id; fail closed."""
        f = self.fns.get(fid)
        if f is None:
            raise AnchorMissing("function %s not found in facts" % fid)
        return f

    def find(self, pattern, file=None, kind=None):
        """All fns whose readable path matches the regex (search)."""
        rx = re.compile(pattern)
        out = []
        for f in self.fns.values():
            if rx.search(f.path) and (file is None or f.file.endswith(file)) and (kind is None or f.kind == kind):
                out.append(f)
        return out

    def one(self, pattern, file=None, kind=None):
        r = self.find(pattern, file, kind)
        if len(r) != 1:
            raise AnchorMissing("expected exactly one fn matching %r in %s, found %d: %s" % (
                pattern, file, len(r), [f.path for f in r][:6]))
        return r[0]

    def body(self, f):
        """For an `async fn` return its coroutine body (the closure#0 child), else f."""
        if f.r.get("async"):
            kids = [c for c in f.children() if c.kind == "coroutine"]
            if len(kids) == 1:
                return kids[0]
            raise AnchorMissing("async fn %s has %d coroutine bodies" % (f.path, len(kids)))
        # #[async_trait] methods: fn returns Pin<Box<dyn Future>> built from a single coroutine child
        return f

    def async_body(self, f):
        """Coroutine body of an async fn or #[async_trait] method (single coroutine child)."""
        kids = [c for c in f.children() if c.kind == "coroutine"]
        if len(kids) == 1:
            return kids[0]
        raise AnchorMissing("fn %s has %d coroutine children (expected 1)" % (f.path, len(kids)))

    def callers(self):
        """Map resolved-callee id (and written callee id) -> list of (Fn, call)."""
        if self._callers is None:
            m = defaultdict(list)
            for f in self.fns.values():
                for c in f.calls:
                    ids = set()
                    if c.get("rid"):
                        ids.add(c["rid"])
                    if c.get("id"):
                        ids.add(c["id"])
                    for i in ids:
                        m[i].append((f, c))
                for c in f.r.get("fnrefs", []):
                    m[c["id"]].append((f, dict(c, fnref=True)))
            self._callers = m
        return self._callers

    def fmts_in(self, f):
        """fmt facts located inside fn f (by span containment, innermost owner)."""
        out = []
        for m in self.fmts:
            if m["file"] == f.file and f.r["body_lo"] <= m["line"] <= f.r["body_hi"]:
                out.append(m)
        return out


class AnchorMissing(Exception):
    """A rule's anchor could not be resolved: the check must fail closed."""


_DB = None


def load(crates=None):
    global _DB
    import gc
    stamp = extract.ensure_facts()
    gc.disable()
    if _DB is None or _DB.stamp.get("tree") != stamp.get("tree"):
        _DB = DB(stamp, crates)
    return _DB

"""Control-flow and dataflow helpers over the MIR facts emitted by lens.

Everything here is a static computation over the dumped CFG: successor relations, dominators,
constrained reachability, place canonicalisation (copy/ref propagation through single-definition
temporaries) and flow-insensitive value-origin closure.  No Lance code is executed.
"""
from collections import defaultdict


def place_local(p):
    return p[0]


def place_proj(p):
    return p[1:]


def op_place(op):
    """Place read by an operand, or None for constants."""
    if "cp" in op:
        return op["cp"]
    if "mv" in op:
        return op["mv"]
    return None


def callee_names(t):
    """All names under which a call terminator's callee may be matched."""
    out = []
    for k in ("rp", "p", "full", "rid", "id"):
        v = t.get(k)
        if v:
            out.append(v)
    return out


def fmt_place(fn, p):
    """Human-readable place."""
    nm = fn.locals[p[0]].get("name")
    s = nm if nm else "_%d" % p[0]
    for e in p[1:]:
        if e == "*":
            s = "(*%s)" % s
        elif isinstance(e, dict):
            if "f" in e:
                s += "." + e["f"]
            elif "d" in e:
                s = "(%s as %s)" % (s, e["d"])
            elif "idx" in e:
                s += "[_%d]" % e["idx"]
            else:
                s += "[..]"
        else:
            s += ".<%s>" % e
    return s


class CFG:
    def __init__(self, fn):
        self.fn = fn
        self.blocks = fn.blocks
        n = len(self.blocks)
        self.n = n
        self.succ = [[] for _ in range(n)]
        self.cancel = [None] * n  # yield drop edges (future cancelled at this await)
        # temporaries assigned exactly once, from a literal (the `_g = const false; switchInt(move _g)` shape of `if false`)
        ndef, lit = {}, {}
        for b in self.blocks:
            for s in b["st"]:
                lhs = s.get("lhs")
                if lhs:
                    ndef[lhs[0]] = ndef.get(lhs[0], 0) + 1
                    rv = s.get("rv") or {}
                    if len(lhs) == 1 and rv.get("r") == "use" and op_place(rv["op"]) is None and isinstance(rv["op"].get("v"), (bool, int)) \
                            and "cdef" not in rv["op"]:
                        lit[lhs[0]] = rv["op"]["v"]
            t = b["term"]
            if t and t.get("dest"):
                ndef[t["dest"][0]] = ndef.get(t["dest"][0], 0) + 1
        for i, b in enumerate(self.blocks):
            t = b["term"]
            if t is None:
                continue
            k = t["t"]
            if k == "goto":
                self.succ[i] = [t["to"]]
            elif k == "switch":
                tg = [a[1] for a in t["arms"]] + [t["else"]]
                on = t["on"]
                p = op_place(on)
                val = None
                if p is None and isinstance(on.get("v"), (bool, int)):
                    val = int(on["v"])
                elif p is not None and len(p) == 1 and ndef.get(p[0]) == 1 and p[0] in lit and not fn.locals[p[0]].get("name"):
                    val = int(lit[p[0]])
                if val is not None:
                    # a test of a literal (`if false`, a folded cfg!()): only the matching edge exists
                    hit = [a[1] for a in t["arms"] if a[0] == val]
                    tg = hit[:1] if hit else [t["else"]]
                seen = []
                for x in tg:
                    if x not in seen:
                        seen.append(x)
                self.succ[i] = seen
            elif k in ("call", "drop", "assert"):
                if t.get("to") is not None:
                    self.succ[i] = [t["to"]]
            elif k == "yield":
                self.succ[i] = [t["to"]]
                self.cancel[i] = t.get("drop")
        self.pred = [[] for _ in range(n)]
        for i, ss in enumerate(self.succ):
            for s in ss:
                self.pred[s].append(i)
        self.reach0 = self.reachable_from([0], include_start=True)
        self._idom = None
        self._defs = None
        self._switch = {}

    # ------------------------------------------------------------------ basic graph
    def reachable_from(self, starts, avoid=(), include_start=False, edge_filter=None):
        """Blocks reachable from the successors of `starts` (or from starts themselves)
        without entering any block in `avoid`.  edge_filter(bb) -> iterable of allowed successors."""
        avoid = set(avoid)
        seen = set()
        stack = []
        if include_start:
            for s in starts:
                if s not in avoid:
                    stack.append(s)
        else:
            for s in starts:
                for x in self._succ(s, edge_filter):
                    if x not in avoid:
                        stack.append(x)
        while stack:
            b = stack.pop()
            if b in seen:
                continue
            seen.add(b)
            for x in self._succ(b, edge_filter):
                if x not in avoid and x not in seen:
                    stack.append(x)
        return seen

    def _succ(self, b, edge_filter):
        if edge_filter is None:
            return self.succ[b]
        r = edge_filter(b)
        return self.succ[b] if r is None else r

    def return_blocks(self):
        return [i for i in self.reach0 if self.blocks[i]["term"] and self.blocks[i]["term"]["t"] == "return"]

    @property
    def idom(self):
        if self._idom is None:
            self._idom = self._dominators()
        return self._idom

    def _dominators(self):
        # iterative set-based dominators over blocks reachable from bb0
        nodes = sorted(self.reach0)
        dom = {b: set(nodes) for b in nodes}
        dom[0] = {0}
        changed = True
        order = self._rpo()
        while changed:
            changed = False
            for b in order:
                if b == 0:
                    continue
                ps = [p for p in self.pred[b] if p in dom]
                if not ps:
                    continue
                new = set.intersection(*(dom[p] for p in ps)) | {b}
                if new != dom[b]:
                    dom[b] = new
                    changed = True
        return dom

    def _rpo(self):
        seen = set()
        out = []

        def dfs(start):
            stack = [(start, iter(self.succ[start]))]
            seen.add(start)
            while stack:
                b, it = stack[-1]
                adv = False
                for s in it:
                    if s not in seen:
                        seen.add(s)
                        stack.append((s, iter(self.succ[s])))
                        adv = True
                        break
                if not adv:
                    out.append(b)
                    stack.pop()
        dfs(0)
        out.reverse()
        return out

    def dominates(self, a, b):
        """Block a dominates block b (both reachable)."""
        d = self.idom.get(b)
        return d is not None and a in d

    def all_paths_to_return_pass(self, start, through, edge_filter=None):
        """Every normal path from the successors of `start` to a `return` passes a block in `through`."""
        r = self.reachable_from([start], avoid=through, edge_filter=edge_filter)
        bad = [b for b in r if self.blocks[b]["term"] and self.blocks[b]["term"]["t"] == "return"]
        return (not bad), bad

    # ------------------------------------------------------------------ events
    def calls(self, pred=None, only_reachable=True):
        """[(bb, term)] of call terminators (optionally filtered by pred(term))."""
        out = []
        for i, b in enumerate(self.blocks):
            if only_reachable and i not in self.reach0:
                continue
            t = b["term"]
            if t and t["t"] == "call" and (pred is None or pred(t)):
                out.append((i, t))
        return out

    def calls_named(self, *subs, only_reachable=True):
        """Calls whose resolved or written callee path contains any of the substrings."""
        def pred(t):
            names = callee_names(t)
            return any(s in nm for s in subs for nm in names)
        return self.calls(pred, only_reachable)

    def stmts(self, only_reachable=True):
        for i, b in enumerate(self.blocks):
            if only_reachable and i not in self.reach0:
                continue
            for j, s in enumerate(b["st"]):
                yield i, j, s

    def aggregates(self, adt=None, variant=None):
        out = []
        for i, j, s in self.stmts():
            rv = s.get("rv")
            if rv and rv["r"] == "agg" and rv.get("adt") is not None:
                if (adt is None or rv["adt"].endswith(adt)) and (variant is None or rv["variant"] == variant):
                    out.append((i, j, s))
        return out

    # ------------------------------------------------------------------ definitions
    @property
    def defs(self):
        """local -> list of definitions: ('assign', bb, idx, stmt) | ('call', bb, term) | ('yield', bb, term)
        Only whole-local definitions (no projection) are listed under 'whole'; partial writes under 'part'."""
        if self._defs is None:
            d = defaultdict(lambda: {"whole": [], "part": [], "mut": []})
            mutref = {}   # temp local -> base local it mutably borrows (`_t = &mut place`)
            for i, b in enumerate(self.blocks):
                for j, s in enumerate(b["st"]):
                    if "lhs" in s:
                        lhs = s["lhs"]
                        key = "whole" if len(lhs) == 1 else "part"
                        d[lhs[0]][key].append(("assign", i, j, s))
                        rv = s.get("rv")
                        if rv and rv["r"] == "ref" and rv.get("mut") and len(lhs) == 1:
                            mutref[lhs[0]] = rv["place"][0]
                        elif rv and rv["r"] == "use" and len(lhs) == 1:
                            p = op_place(rv["op"])
                            if p is not None and len(p) == 1 and p[0] in mutref:
                                mutref[lhs[0]] = mutref[p[0]]
            for i, b in enumerate(self.blocks):
                t = b["term"]
                if t and t["t"] == "call":
                    dest = t["dest"]
                    key = "whole" if len(dest) == 1 else "part"
                    d[dest[0]][key].append(("call", i, t))
                    # out-parameter idiom: a call receiving `&mut x` may store into x (kept apart from whole/part so that
                    # single-definition reasoning about temporaries is unaffected; used by the origin closure only)
                    for a in t["args"]:
                        p = op_place(a)
                        if p is not None and len(p) == 1 and p[0] in mutref:
                            d[mutref[p[0]]]["mut"].append(("callmut", i, t))
                if t and t["t"] == "yield":
                    ra = t["resume_arg"]
                    d[ra[0]]["whole" if len(ra) == 1 else "part"].append(("yield", i, t))
            self._defs = d
        return self._defs

    def single_def(self, local, within=None):
        """The unique whole-local definition (optionally: unique among definitions located in the block
        set `within`, e.g. the region reachable under a path constraint)."""
        d = self.defs.get(local)
        if not d:
            return None
        if within is None:
            if len(d["whole"]) == 1 and not d["part"]:
                return d["whole"][0]
            return None
        w = [x for x in d["whole"] if x[1] in within]
        p = [x for x in d["part"] if x[1] in within]
        if len(w) == 1 and not p:
            return w[0]
        return None

    def canon(self, place, depth=12, within=None):
        """Canonical place: substitute single-definition temporaries that are plain copies/moves of a
        place or references to a place.  Returns a place (list)."""
        p = list(place)
        for _ in range(depth):
            d = self.single_def(p[0], within)
            if not d or d[0] != "assign":
                break
            rv = d[3]["rv"]
            if rv["r"] == "use":
                q = op_place(rv["op"])
                if q is None:
                    break
                p = list(q) + p[1:]
                continue
            if rv["r"] == "ref" and len(p) > 1 and p[1] == "*":
                p = list(rv["place"]) + p[2:]
                continue
            if rv["r"] == "cast":
                q = op_place(rv["op"])
                if q is None:
                    break
                p = list(q) + p[1:]
                continue
            break
        return p

    # ------------------------------------------------------------------ switches
    def switch_info(self, bb):
        """For a switch block: {'kind': 'enum'|'bool'|'int', 'place': canonical place switched on,
        'adt':..., 'targets': {target_bb: set(labels)}, 'label_to': {label: bb}}; labels are variant names,
        True/False, or ints; the `else` target gets the remaining variants (or 'else')."""
        if bb in self._switch:
            return self._switch[bb]
        t = self.blocks[bb]["term"]
        if not t or t["t"] != "switch":
            self._switch[bb] = None
            return None
        info = {"kind": "int", "place": None, "adt": None}
        src = op_place(t["on"])
        dstmt = None
        if src is not None and len(src) == 1:
            d = self.single_def(src[0])
            if d and d[0] == "assign":
                dstmt = d[3]
        label_to = {}
        if dstmt is not None and dstmt["rv"]["r"] == "discr":
            rv = dstmt["rv"]
            info["kind"] = "enum"
            info["adt"] = rv.get("adt")
            info["place"] = self.canon(rv["place"])
            vars_ = rv.get("vars", {})
            used = set()
            for v, tgt in t["arms"]:
                nm = vars_.get(str(v), "#%s" % v)
                label_to[nm] = tgt
                used.add(nm)
            rest = [nm for nm in vars_.values() if nm not in used]
            # else-target: all remaining variants (if none remain it is unreachable)
            for nm in rest:
                label_to[nm] = t["else"]
            info["else_labels"] = rest
        else:
            ty = None
            if src is not None:
                ty = self.fn.locals[src[0]]["ty"] if len(src) == 1 else None
            if ty == "bool" or (len(t["arms"]) == 1 and t["arms"][0][0] == 0 and ty in (None, "bool")):
                info["kind"] = "bool"
                label_to[False] = t["arms"][0][1]
                label_to[True] = t["else"]
                if src is not None:
                    info["place"] = self.canon(src)
            else:
                for v, tgt in t["arms"]:
                    label_to[v] = tgt
                label_to["else"] = t["else"]
                if src is not None:
                    info["place"] = self.canon(src)
        info["label_to"] = label_to
        tg = defaultdict(set)
        for lb, tgt in label_to.items():
            tg[tgt].add(lb)
        info["targets"] = dict(tg)
        self._switch[bb] = info
        return info

    def bool_def(self, bb):
        """For a bool switch: the statement/terminator that defines the switched-on local, if unique."""
        t = self.blocks[bb]["term"]
        src = op_place(t["on"])
        if src is None or len(src) != 1:
            return None
        return self.single_def(src[0])

    # ------------------------------------------------------------------ origins
    def origins(self, local, transparent=None, max_nodes=4000):
        """Flow-insensitive backward closure of value origins of `local`.

        Returns a set of leaf sources:
          ('call', callee_path, bb)      value produced by a (non-transparent) call
          ('arg', n)                     function parameter n (1-based local index)
          ('upvar', name)                captured variable of a closure/coroutine
          ('const', repr)                constant
          ('agg', adt, variant, bb)      aggregate (its operands are also followed)
          ('bin', op, bb)                binary op (operands also followed)
          ('field', name)                marker: the value was read through field `name` of a followed origin
        `transparent(term)` decides whether a call just forwards its arguments (clone, as_ref, ?...).
        """
        if transparent is None:
            transparent = default_transparent
        out = set()
        seen = set()
        work = [local]
        argc = self.fn.r.get("argc", 0)
        while work:
            l = work.pop()
            if l in seen:
                continue
            seen.add(l)
            if len(seen) > max_nodes:
                out.add(("overflow",))
                break
            if 1 <= l <= argc:
                out.add(("arg", l))
            d = self.defs.get(l)
            if not d:
                continue
            for kind in ("whole", "part", "mut"):
                for df in d.get(kind, ()):
                    if df[0] == "assign":
                        self._rv_sources(df[3]["rv"], df[1], out, work, l)
                    elif df[0] == "callmut":
                        t = df[2]
                        out.add(("mutated-by", t.get("rp") or t.get("p"), df[1]))
                        for a in t["args"]:
                            p = op_place(a)
                            if p is not None and p[0] != l:
                                self._op_sources(a, out, work)
                    elif df[0] == "call":
                        t = df[2]
                        if transparent(t):
                            for a in t["args"]:
                                self._op_sources(a, out, work)
                            out.add(("via", t.get("rp") or t.get("p"), df[1]))
                        else:
                            out.add(("call", t.get("rp") or t.get("p"), df[1]))
                    elif df[0] == "yield":
                        out.add(("resume",))
        return out

    def _op_sources(self, op, out, work):
        p = op_place(op)
        if p is None:
            if "fn" in op:
                out.add(("fnitem", op.get("rp") or op.get("p")))
            else:
                out.add(("const", op.get("cdef") or op.get("v", op.get("c"))))
            return
        self._place_sources(p, out, work)

    def _place_sources(self, p, out, work):
        work.append(p[0])
        for e in p[1:]:
            if isinstance(e, dict):
                if "f" in e:
                    out.add(("field", e["f"]))
                    if e["f"].startswith("^"):
                        out.add(("upvar", e["f"][1:]))
                elif "idx" in e:
                    work.append(e["idx"])

    def _rv_sources(self, rv, bb, out, work, lhs_local):
        r = rv["r"]
        if r in ("use", "cast", "repeat"):
            self._op_sources(rv["op"], out, work)
        elif r in ("ref", "rawptr", "discr"):
            self._place_sources(rv["place"], out, work)
        elif r == "bin":
            out.add(("bin", rv["op"], bb))
            self._op_sources(rv["a"], out, work)
            self._op_sources(rv["b"], out, work)
        elif r == "un":
            out.add(("un", rv["op"], bb))
            self._op_sources(rv["a"], out, work)
        elif r == "agg":
            if rv.get("adt"):
                out.add(("agg", rv["adt"], rv["variant"], bb))
            elif rv.get("closure"):
                out.add(("closure", rv["closure"], bb))
            for o in rv["ops"]:
                self._op_sources(o, out, work)
        else:
            out.add(("other", rv.get("s", r)))

    def control_origins(self, bb, transparent=None, skip=None):
        """Origins of the operands of every switch that block bb is control-dependent on (bb is dominated by the
        switch and reachable from only some of its targets).  skip(switch_bb) excludes switches (e.g. the variant
        dispatch itself when the question is what happens *inside* an arm)."""
        out = set()
        for s in sorted(self.reach0):
            t = self.blocks[s]["term"]
            if not t or t["t"] != "switch" or s == bb or not self.dominates(s, bb):
                continue
            if skip is not None and skip(s):
                continue
            tg = self.succ[s]
            if len(tg) < 2:
                continue
            hits = 0
            for x in tg:
                r = self.reachable_from([x], include_start=True, avoid=[y for y in tg if y != x])
                if bb in r:
                    hits += 1
            if hits == len(tg):
                continue
            p = op_place(t["on"])
            if p is not None:
                out |= self.origins(p[0], transparent)
                self._place_sources(p, out, [])
        return out

    def op_control_origins(self, op, transparent=None, skip=None):
        """Control origins of every definition of the operand's local (for values chosen by a `match` on something)."""
        p = op_place(op)
        if p is None:
            return set()
        q = self.canon(p)
        out = set()
        d = self.defs.get(q[0])
        if not d:
            return out
        dbs = sorted({df[1] for df in d["whole"] if df[1] in self.reach0})
        if len(dbs) < 2:
            return out      # a single definition is not *chosen* by any branch (early exits do not select values)
        for s in sorted(self.reach0):
            t = self.blocks[s]["term"]
            if not t or t["t"] != "switch" or not all(self.dominates(s, b) for b in dbs):
                continue
            if skip is not None and skip(s):
                continue
            tg = self.succ[s]
            hosts = set()
            for x in tg:
                r = self.reachable_from([x], include_start=True, avoid=[y for y in tg if y != x])
                if any(b in r for b in dbs):
                    hosts.add(x)
            if len(hosts) >= 2:
                sp = op_place(t["on"])
                if sp is not None:
                    out |= self.origins(sp[0], transparent)
                    self._place_sources(sp, out, [])
        return out

    def op_origins(self, op, transparent=None):
        p = op_place(op)
        if p is None:
            out = set()
            self._op_sources(op, out, [])
            return out
        out = set()
        work = []
        self._place_sources(p, out, work)
        for l in work:
            out |= self.origins(l, transparent)
        return out


def expr_of(fn, op_or_local, depth=40, within=None):
    """Expression tree of a value through single-definition temporaries:
    ('param', n) | ('const', value, cdef) | ('bin', op, a, b) | ('un', op, a) | ('field', base, name) |
    ('call', name, [args]) | ('agg', adt, variant, {field: expr}) | ('ref', e) | ('unknown', why)."""
    c = fn.cfg

    def place_expr(p, d):
        if d <= 0:
            return ("unknown", "depth")
        base = local_expr(p[0], d)
        for e in p[1:]:
            if e == "*":
                if base[0] == "ref":
                    base = base[1]
                else:
                    base = ("deref", base)
            elif isinstance(e, dict) and "f" in e:
                if base[0] == "agg" and e["f"] in base[3]:
                    base = base[3][e["f"]]
                elif base[0] == "tuple" and e["f"].isdigit() and int(e["f"]) < len(base[1]):
                    base = base[1][int(e["f"])]
                else:
                    base = ("field", base, e["f"])
            elif isinstance(e, dict) and "d" in e:
                base = ("as", base, e["d"])
            else:
                base = ("proj", base, str(e))
        return base

    def op_expr(op, d):
        p = op_place(op)
        if p is not None:
            return place_expr(p, d)
        if "fn" in op:
            return ("fnitem", op.get("rp") or op.get("p"))
        return ("const", op.get("v", op.get("c")), op.get("cdef"))

    def local_expr(l, d):
        argc = fn.r.get("argc", 0)
        df = c.single_def(l, within)
        if df is None:
            if 1 <= l <= argc:
                return ("param", l)
            return ("unknown", "local _%d has %s definitions" % (l, "no" if not c.defs.get(l) else "several"))
        if df[0] == "call":
            t = df[2]
            return ("call", t.get("rp") or t.get("p"), [op_expr(a, d - 1) for a in t["args"]])
        if df[0] != "assign":
            return ("unknown", df[0])
        rv = df[3]["rv"]
        r = rv["r"]
        if r in ("use", "cast"):
            return op_expr(rv["op"], d - 1)
        if r == "ref":
            return ("ref", place_expr(rv["place"], d - 1))
        if r == "bin":
            op = rv["op"]
            if op.endswith("WithOverflow"):
                return ("tuple", [("bin", op[:-12], op_expr(rv["a"], d - 1), op_expr(rv["b"], d - 1)), ("const", False, None)])
            return ("bin", op, op_expr(rv["a"], d - 1), op_expr(rv["b"], d - 1))
        if r == "un":
            return ("un", rv["op"], op_expr(rv["a"], d - 1))
        if r == "agg":
            if rv.get("adt"):
                return ("agg", rv["adt"], rv["variant"], {f: op_expr(o, d - 1) for f, o in zip(rv["fields"], rv["ops"])})
            if rv.get("tuple"):
                return ("tuple", [op_expr(o, d - 1) for o in rv["ops"]])
            return ("unknown", "aggregate")
        if r == "discr":
            return ("discr", place_expr(rv["place"], d - 1))
        return ("unknown", r)

    if isinstance(op_or_local, int):
        return local_expr(op_or_local, depth)
    return op_expr(op_or_local, depth)


TRANSPARENT_SUBSTR = (
    "Clone>::clone", "::clone", "as_ref", "as_mut", "::unwrap", "::expect", "Try>::branch", "Try::branch",
    "::into", "From>::from", "::from", "Deref>::deref", "::deref", "::borrow", "to_owned", "::as_str",
    "::as_deref", "::as_slice", "::to_string", "::to_vec", "IntoFuture>::into_future", "IntoFuture::into_future",
    "Pin::<Ptr>::new_unchecked", "::new_unchecked", "Future::poll", "Future>::poll", "::iter", "::into_iter",
    "::copied", "::cloned", "must_use", "Box::<T>::new", "Arc::<T>::new", "Some", "::ok_or", "::map_err",
    "::unwrap_or", "Box::<T>::pin", "::boxed",
)


def default_transparent(t):
    nm = t.get("rp") or t.get("p") or ""
    nm2 = t.get("full") or ""
    return any(s in nm or s in nm2 for s in TRANSPARENT_SUBSTR)


def dump(fn, blocks=None, out=None):
    """Compact textual rendering of a function's CFG (for diagnostics and replay files)."""
    lines = []
    for i, b in enumerate(fn.blocks):
        if blocks is not None and i not in blocks:
            continue
        if b["cleanup"]:
            continue
        lines.append("bb%d:" % i)
        for s in b["st"]:
            if "rv" in s:
                lines.append("    %s = %s   // L%d" % (fmt_place(fn, s["lhs"]), fmt_rv(fn, s["rv"]), s["ln"]))
        t = b["term"]
        if t:
            lines.append("    " + fmt_term(fn, t))
    return "\n".join(lines)


def fmt_op(fn, op):
    p = op_place(op)
    if p is not None:
        return ("move " if "mv" in op else "") + fmt_place(fn, p)
    if "fn" in op:
        return "fn:" + (op.get("rp") or op["p"])
    return "const %s" % (op.get("cdef") or op.get("v", op.get("c")))


def fmt_rv(fn, rv):
    r = rv["r"]
    if r == "use":
        return fmt_op(fn, rv["op"])
    if r == "ref":
        return "&%s%s" % ("mut " if rv.get("mut") else "", fmt_place(fn, rv["place"]))
    if r == "discr":
        return "discriminant(%s)" % fmt_place(fn, rv["place"])
    if r == "bin":
        return "%s(%s, %s)" % (rv["op"], fmt_op(fn, rv["a"]), fmt_op(fn, rv["b"]))
    if r == "un":
        return "%s(%s)" % (rv["op"], fmt_op(fn, rv["a"]))
    if r == "cast":
        return "%s as %s" % (fmt_op(fn, rv["op"]), rv["ty"])
    if r == "agg":
        if rv.get("adt"):
            return "%s::%s{%s}" % (rv["adt"], rv["variant"], ", ".join(
                "%s: %s" % (f, fmt_op(fn, o)) for f, o in zip(rv["fields"], rv["ops"])))
        if rv.get("closure"):
            return "closure %s [%s]" % (rv["closure"], ", ".join(fmt_op(fn, o) for o in rv["ops"]))
        return "(%s)" % ", ".join(fmt_op(fn, o) for o in rv["ops"])
    return str(rv)


def fmt_term(fn, t):
    k = t["t"]
    if k == "call":
        return "%s = %s(%s) -> bb%s   // L%d" % (fmt_place(fn, t["dest"]), t.get("rp") or t.get("p"),
                                                 ", ".join(fmt_op(fn, a) for a in t["args"]), t.get("to"), t["ln"])
    if k == "switch":
        return "switch %s %s else bb%d" % (fmt_op(fn, t["on"]), t["arms"], t["else"])
    if k == "goto":
        return "goto bb%d" % t["to"]
    if k == "drop":
        return "drop(%s) -> bb%d" % (fmt_place(fn, t["place"]), t["to"])
    if k == "yield":
        return "yield -> bb%d" % t["to"]
    if k == "assert":
        return "assert -> bb%d" % t["to"]
    return k

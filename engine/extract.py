"""Fact extraction: run lens (rustc_private driver) over /repo's current working tree.

The deciding step of every check starts here: the workspace is type-checked by the nightly
front end with `lens` as RUSTC_WRAPPER and one fact file per workspace crate is written to
/verif/.cache/facts.  Nothing from /repo is executed (build scripts of dependencies aside,
which is what any `cargo check` does).

Freshness: cargo's fingerprint cache would silently skip the wrapper, so facts are keyed by a
content hash of every source the build reads (`*.rs`, `Cargo.toml`, `Cargo.lock`, `*.proto`,
`build.rs`) plus a hash of the lens binary and the focus list.  On a miss all workspace members'
fingerprints are deleted, all fact files are removed, cargo is re-run and every expected fact
file is asserted to exist afterwards.
"""
import fcntl
import hashlib
import json
import os
import shutil
import subprocess
import sys
import time

VERIF = os.path.dirname(os.path.dirname(os.path.abspath(__file__)))
REPO = os.environ.get("VERIF_REPO", "/repo")
CACHE = os.environ.get("VERIF_CACHE", os.path.join(VERIF, ".cache"))
FACTS = os.path.join(CACHE, "facts")
TARGET = os.path.join(CACHE, "target")
LENS = os.path.join(VERIF, "lens", "target", "release", "lens")
FOCUS = os.environ.get("VERIF_FOCUS", os.path.join(VERIF, "rules", "focus.txt"))
RUSTFLAGS = "-Zmir-opt-level=0 -Awarnings"

# Workspace library crates (crate names as rustc sees them).  Confirmed against
# `cargo metadata`; a missing fact file for any of these fails the extraction.
EXPECTED_MIN = [
    "lance", "lance_arrow", "lance_core", "lance_datafusion", "lance_encoding", "lance_file",
    "lance_index", "lance_io", "lance_linalg", "lance_namespace", "lance_namespace_impls",
    "lance_table",
]


class ExtractError(Exception):
    pass


def _sha_file(h, path):
    with open(path, "rb") as f:
        while True:
            b = f.read(1 << 20)
            if not b:
                break
            h.update(b)


def tree_hash(repo=REPO):
    """Hash of everything the workspace build reads (not target/, not .git)."""
    h = hashlib.sha256()
    roots = [os.path.join(repo, "rust"), os.path.join(repo, "protos")]
    files = []
    for top in ("Cargo.toml", "Cargo.lock", "rust-toolchain.toml"):
        p = os.path.join(repo, top)
        if os.path.exists(p):
            files.append(p)
    for root in roots:
        for d, dirs, fs in os.walk(root):
            dirs[:] = [x for x in dirs if x not in ("target", ".git", "node_modules")]
            for f in fs:
                if f.endswith((".rs", ".proto", ".toml")) or f == "Cargo.lock":
                    files.append(os.path.join(d, f))
    files.sort()
    for p in files:
        h.update(os.path.relpath(p, repo).encode())
        h.update(b"\0")
        _sha_file(h, p)
        h.update(b"\0")
    return h.hexdigest(), len(files)


def config_hash():
    h = hashlib.sha256()
    _sha_file(h, LENS)
    _sha_file(h, FOCUS)
    h.update(RUSTFLAGS.encode())
    return h.hexdigest()


def nightly_sysroot():
    out = subprocess.run(["rustc", "+nightly", "--print", "sysroot"], capture_output=True, text=True)
    if out.returncode != 0:
        raise ExtractError("nightly toolchain not available: " + out.stderr)
    return out.stdout.strip()


def _workspace_members():
    """Names of workspace packages (for fingerprint deletion)."""
    out = subprocess.run(
        ["cargo", "+nightly", "metadata", "--offline", "--no-deps", "--format-version", "1"],
        cwd=REPO, capture_output=True, text=True,
        env=dict(os.environ, CARGO_NET_OFFLINE="true"))
    if out.returncode != 0:
        raise ExtractError("cargo metadata failed: " + out.stderr[-2000:])
    md = json.loads(out.stdout)
    libs = []
    pk = []
    for p in md["packages"]:
        pk.append(p["name"])
        for t in p["targets"]:
            if any(k in ("lib", "rlib", "cdylib", "proc-macro") for k in t["kind"]) and "proc-macro" not in t["kind"]:
                libs.append(t["name"].replace("-", "_"))
    return pk, sorted(set(libs))


def _purge_fingerprints(packages):
    fp = os.path.join(TARGET, "debug", ".fingerprint")
    if not os.path.isdir(fp):
        return
    for d in os.listdir(fp):
        for p in packages:
            # fingerprint dirs are <package-name>-<hash>
            if d.startswith(p + "-") and len(d) == len(p) + 17:
                shutil.rmtree(os.path.join(fp, d), ignore_errors=True)


def ensure_facts(verbose=True):
    """Make /verif/.cache/facts correspond to /repo's current tree. Returns stamp dict."""
    os.makedirs(FACTS, exist_ok=True)
    if not os.path.exists(LENS):
        raise ExtractError("lens binary missing; run ./setup.sh")
    lock = open(os.path.join(CACHE, "extract.lock"), "w")
    fcntl.flock(lock, fcntl.LOCK_EX)
    try:
        t0 = time.time()
        th, nfiles = tree_hash()
        ch = config_hash()
        stamp_path = os.path.join(FACTS, "STAMP.json")
        stamp = None
        if os.path.exists(stamp_path):
            try:
                stamp = json.load(open(stamp_path))
            except Exception:
                stamp = None
        if stamp and stamp.get("tree") == th and stamp.get("config") == ch and all(
                os.path.exists(os.path.join(FACTS, c + ".facts.jsonl")) for c in stamp.get("crates", ["?"])):
            stamp["cached"] = True
            return stamp
        if verbose:
            print("[extract] tree changed (or first run): re-extracting facts with lens ...", file=sys.stderr)
        packages, libs = _workspace_members()
        for c in EXPECTED_MIN:
            if c not in libs:
                raise ExtractError("expected workspace crate %s not in cargo metadata" % c)
        for f in os.listdir(FACTS):
            p = os.path.join(FACTS, f)
            if os.path.isdir(p):
                shutil.rmtree(p, ignore_errors=True)
            else:
                os.unlink(p)
        _purge_fingerprints(packages)
        sysroot = nightly_sysroot()
        env = dict(os.environ)
        env.update({
            "CARGO_NET_OFFLINE": "true",
            "RUSTC_WRAPPER": LENS,
            "LENS_OUT": FACTS,
            "LENS_FOCUS": FOCUS,
            "LENS_ETHNUM": os.path.join(VERIF, "vendor", "ethnum-1.5.2", "src", "lib.rs"),
            "RUSTFLAGS": RUSTFLAGS,
            "CARGO_TARGET_DIR": TARGET,
            "LD_LIBRARY_PATH": os.path.join(sysroot, "lib") + ":" + env.get("LD_LIBRARY_PATH", ""),
        })
        env.pop("RUSTC_WORKSPACE_WRAPPER", None)
        cmd = ["cargo", "+nightly", "check", "--offline", "--workspace", "--lib"]
        p = subprocess.run(cmd, cwd=REPO, env=env, capture_output=True, text=True)
        log = os.path.join(CACHE, "extract.log")
        with open(log, "w") as f:
            f.write(p.stdout)
            f.write(p.stderr)
        if p.returncode != 0:
            tail = "\n".join(p.stderr.splitlines()[-40:])
            raise ExtractError("cargo +nightly check failed on the current tree (see %s):\n%s" % (log, tail))
        missing = [c for c in libs if not os.path.exists(os.path.join(FACTS, c + ".facts.jsonl"))]
        if missing:
            raise ExtractError("fact files missing after extraction: %s" % missing)
        stamp = {"tree": th, "config": ch, "files_hashed": nfiles, "crates": libs,
                 "extract_s": round(time.time() - t0, 1), "toolchain": _toolchain()}
        with open(stamp_path, "w") as f:
            json.dump(stamp, f)
        stamp["cached"] = False
        return stamp
    finally:
        fcntl.flock(lock, fcntl.LOCK_UN)
        lock.close()


def _toolchain():
    out = subprocess.run(["rustc", "+nightly", "--version"], capture_output=True, text=True)
    return out.stdout.strip()


if __name__ == "__main__":
    try:
        s = ensure_facts()
    except ExtractError as e:
        print("EXTRACT-ERROR:", e, file=sys.stderr)
        sys.exit(3)
    print(json.dumps(s))

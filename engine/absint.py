"""Finite-domain abstract interpreter over lens MIR facts (rule kind TABLE, DESIGN.md 2.2).

It walks the dumped CFG of small functions with abstract values:
  * sets of row ids are abstracted pointwise to one bit: "is the arbitrary-but-fixed row x a member";
    union / intersection / difference are the Boolean connectives on that bit (ASSUMED of
    RowIdTreeMap / RoaringBitmap); `is_empty()` on a set whose bit is 0 is unknown and forks.
  * Option / struct / tuple / enum values are kept structurally, so every `match` on a discriminant is
    decided by the enumerated input shape;
  * strict mode (default): anything outside the supported subset (loops beyond a step bound, unknown calls, raw
    pointers) raises Abort and the rule instance FAILS CLOSED.
  * lenient mode ("success-path" interpretation, used for decision tables embedded in larger functions): an unknown
    call returns the opaque value UNK; a `match` on an opaque Result/Option/Poll/ControlFlow follows the success
    variant (Ok / Some / Ready / Continue); comparisons and tests on opaque values FORK and every combination is
    explored; `Iterator::next` yields one opaque element and then None (each loop body is walked once); `.await`
    is straight-line (poll returns Ready).  What is decided is then the decision structure along the
    all-calls-succeed paths; error paths are covered by separate dominance rules.
This is dataflow over a finite lattice enumerated exhaustively, not execution of Lance code and not
symbolic execution: no solver, no concrete data, no memory model beyond locals.
"""
import copy

from .cfg import op_place


class Abort(Exception):
    pass


class SetBit:
    """Pointwise abstraction of a row-id set: membership bit of the fixed row x."""
    __slots__ = ("bit",)

    def __init__(self, bit):
        self.bit = bool(bit)

    def __repr__(self):
        return "Set[%d]" % self.bit


class Ref:
    __slots__ = ("frame", "place")

    def __init__(self, frame, place):
        self.frame = frame
        self.place = place

    def fields(self):
        return [e["f"] for e in self.place[1:] if isinstance(e, dict) and "f" in e]


class DiscrUnk:
    """Discriminant of an opaque enum value; carries the variant table of the read."""
    __slots__ = ("vars",)

    def __init__(self, vars_):
        self.vars = vars_


UNK = ("unknown",)
PREFER = ("Continue", "Ok", "Some", "Ready")


def mk_none():
    return {"$adt": "Option", "$variant": "None"}


def mk_some(v):
    return {"$adt": "Option", "$variant": "Some", "0": v}


def mk_adt(adt, variant, fields):
    d = {"$adt": adt, "$variant": variant}
    d.update(fields)
    return d


class Frame:
    def __init__(self, fn):
        self.fn = fn
        self.locals = {}
        self.sites = {}


# Tier knobs, set by ./check before a rule runs: the thorough tier walks every opaque loop body twice (element, element,
# end) instead of once and allows proportionally more steps, so that a decision that differs on the second iteration of a
# loop (state carried over from the first element) is explored too.
DEFAULT_LOOP_ITERS = 1
STEP_FACTOR = 1


class Interp:
    def __init__(self, db, hooks, step_limit=4000, depth_limit=8, lenient=False, loop_iters=None):
        self.db = db
        self.hooks = hooks          # list of (substring, callable(interp, term, argvals) -> value)
        self.step_limit = step_limit * STEP_FACTOR
        self.depth_limit = depth_limit
        self.lenient = lenient
        self.loop_iters = DEFAULT_LOOP_ITERS if loop_iters is None else loop_iters
        self.choices = []
        self.pos = 0
        self.widths = []
        self.visited_fns = set()
        self.events = []
        self.memo = {}
        self.unknown_calls = set()

    # ---- nondeterminism (forks are enumerated exhaustively by `explore`) -----------
    def choose(self, n, why=""):
        if self.pos < len(self.choices):
            c = self.choices[self.pos]
        else:
            c = 0
            self.choices.append(0)
            self.widths.append(n)
        self.pos += 1
        return c

    def fork_bool(self, key):
        """An opaque boolean: both values are explored; the same key gives the same answer within one run."""
        if key in self.memo:
            return self.memo[key]
        v = self.choose(2, key) == 1
        self.memo[key] = v
        return v

    def explore(self, thunk):
        """Run thunk() for every combination of fork decisions; yields results."""
        self.choices = []
        self.widths = []
        while True:
            self.pos = 0
            self.events = []
            self.memo = {}
            yield thunk()
            # backtrack
            while self.choices and self.choices[-1] + 1 >= self.widths[len(self.choices) - 1]:
                self.choices.pop()
                self.widths.pop()
            if not self.choices:
                return
            self.choices[-1] += 1
            self.widths = self.widths[:len(self.choices)]

    # ---- places ------------------------------------------------------------------
    def read(self, frame, place):
        if place[0] not in frame.locals:
            if self.lenient:
                return UNK
            raise Abort("read of unset local _%d in %s" % (place[0], frame.fn.path))
        v = frame.locals[place[0]]
        for e in place[1:]:
            v = self._proj(v, e, frame)
        return v

    def _proj(self, v, e, frame):
        if v is UNK and self.lenient:
            return UNK
        if e == "*":
            if isinstance(v, Ref):
                return self.read(v.frame, v.place)
            if isinstance(v, str):
                return v  # &'static str constant: the referent is the string itself
            if self.lenient:
                return v
            raise Abort("deref of non-reference %r in %s" % (v, frame.fn.path))
        if isinstance(e, dict):
            if "f" in e:
                if isinstance(v, dict):
                    if e["f"] not in v:
                        if self.lenient:
                            return UNK
                        raise Abort("field %s missing on %r" % (e["f"], v))
                    return v[e["f"]]
                if isinstance(v, list):
                    i = int(e["f"])
                    if i < len(v):
                        return v[i]
                if self.lenient:
                    return UNK
                raise Abort("field %s of non-aggregate %r" % (e["f"], v))
            if "d" in e:
                if isinstance(v, dict) and v.get("$variant") == e["d"]:
                    return v
                if self.lenient:
                    return UNK
                raise Abort("downcast to %s of %r" % (e["d"], v))
            if self.lenient:
                return UNK
        raise Abort("unsupported projection %r" % (e,))

    def write(self, frame, place, val):
        if len(place) == 1:
            frame.locals[place[0]] = val
            return
        cur_frame = frame
        v = frame.locals.get(place[0], UNK if self.lenient else None)
        path = place[1:]
        for i, e in enumerate(path):
            last = i == len(path) - 1
            if v is UNK and self.lenient:
                return   # write into opaque storage: ignored
            if e == "*":
                if not isinstance(v, Ref):
                    if self.lenient:
                        return
                    raise Abort("write through non-reference")
                if last:
                    self.write(v.frame, v.place, val)
                    return
                cur_frame = v.frame
                v = self.read(v.frame, v.place)
                continue
            if isinstance(e, dict) and "f" in e:
                if last:
                    if isinstance(v, dict):
                        v[e["f"]] = val
                    elif isinstance(v, list) and int(e["f"]) < len(v):
                        v[int(e["f"])] = val
                    elif self.lenient:
                        return
                    else:
                        raise Abort("field write on %r" % (v,))
                    return
                v = self._proj(v, e, cur_frame)
                continue
            if isinstance(e, dict) and "d" in e:
                continue
            if self.lenient:
                return
            raise Abort("unsupported write projection %r" % (e,))

    def operand(self, frame, op):
        p = op_place(op)
        if p is not None:
            return self.read(frame, p)
        if "v" in op:
            return op["v"]
        if "fn" in op:
            return ("fnitem", op.get("rp") or op.get("p"))
        if op.get("ty") == "()":
            return []
        return UNK

    # ---- rvalues -----------------------------------------------------------------
    def rvalue(self, frame, rv, site=None):
        r = rv["r"]
        if r == "use":
            return self.operand(frame, rv["op"])
        if r == "ref":
            return Ref(frame, rv["place"])
        if r == "discr":
            v = self.read(frame, rv["place"])
            if not isinstance(v, dict) or "$variant" not in v:
                if self.lenient:
                    return DiscrUnk(rv.get("vars", {}))
                raise Abort("discriminant of %r" % (v,))
            inv = {name: int(d) for d, name in rv.get("vars", {}).items()}
            if v["$variant"] not in inv:
                raise Abort("variant %s not in %s" % (v["$variant"], inv))
            return inv[v["$variant"]]
        if r == "agg":
            ops = [self.operand(frame, o) for o in rv["ops"]]
            if rv.get("adt"):
                return mk_adt(rv["adt"].split("::")[-1], rv["variant"], dict(zip(rv["fields"], ops)))
            if rv.get("tuple") or rv.get("array"):
                return ops
            if rv.get("closure"):
                d = {"$closure": rv["closure"]}
                d.update(dict(zip(rv.get("fields", []), ops)))
                return d
            raise Abort("unsupported aggregate %r" % rv)
        if r == "un":
            a = self.operand(frame, rv["a"])
            if rv["op"] == "Not" and isinstance(a, bool):
                return not a
            if self.lenient:
                if rv["op"] == "Not":
                    return self.fork_bool(("not", frame.fn.id, site))
                return UNK
            raise Abort("unsupported unary %s on %r" % (rv["op"], a))
        if r == "bin":
            a = self.operand(frame, rv["a"])
            b = self.operand(frame, rv["b"])
            op = rv["op"]
            concrete = isinstance(a, (int, bool, str)) and isinstance(b, (int, bool, str))
            if not concrete:
                if not self.lenient:
                    raise Abort("binary op %s on non-concrete values" % op)
                if op in ("Eq", "Ne", "Lt", "Le", "Gt", "Ge"):
                    return self.fork_bool(("cmp", frame.fn.id, site, op))
                if op.endswith("WithOverflow"):
                    return [UNK, False]
                return UNK
            table = {"Eq": lambda: a == b, "Ne": lambda: a != b, "BitAnd": lambda: a & b, "BitOr": lambda: a | b,
                     "BitXor": lambda: a ^ b, "Lt": lambda: a < b, "Le": lambda: a <= b, "Gt": lambda: a > b,
                     "Ge": lambda: a >= b, "Add": lambda: a + b, "Sub": lambda: a - b, "Mul": lambda: a * b}
            if op in table:
                return table[op]()
            if op.endswith("WithOverflow") and op[:-12] in table:
                return [table[op[:-12]](), False]
            if self.lenient:
                return UNK
            raise Abort("unsupported binary %s" % op)
        if r == "cast":
            return self.operand(frame, rv["op"])
        if self.lenient:
            return UNK
        raise Abort("unsupported rvalue %s" % r)

    # ---- execution ---------------------------------------------------------------
    def call_fn(self, fn, args, depth=0):
        if depth > self.depth_limit:
            raise Abort("call depth limit")
        if not fn.focus:
            raise Abort("callee %s has no CFG facts" % fn.path)
        self.visited_fns.add(fn)
        fr = Frame(fn)
        argc = fn.r["argc"]
        if len(args) != argc:
            raise Abort("arity mismatch calling %s (%d vs %d)" % (fn.path, len(args), argc))
        for i, a in enumerate(args):
            fr.locals[i + 1] = a
        bb = 0
        steps = 0
        blocks = fn.blocks
        while True:
            steps += 1
            if steps > self.step_limit:
                raise Abort("step limit in %s (loop?)" % fn.path)
            b = blocks[bb]
            for j, s in enumerate(b["st"]):
                if "rv" in s:
                    self.write(fr, s["lhs"], self.rvalue(fr, s["rv"], site=(bb, j)))
                elif "setdiscr" in s:
                    if not self.lenient:
                        raise Abort("SetDiscriminant unsupported")
            t = b["term"]
            k = t["t"]
            if k in ("goto", "drop", "assert"):
                bb = t["to"]
            elif k == "return":
                return fr.locals.get(0, [])
            elif k == "switch":
                v = self.operand(fr, t["on"])
                if isinstance(v, bool):
                    v = int(v)
                if isinstance(v, DiscrUnk):
                    nxt = None
                    names = {int(d): n for d, n in v.vars.items()}
                    for want in PREFER:
                        for val, tgt in t["arms"]:
                            if names.get(val) == want:
                                nxt = tgt
                                break
                        if nxt is not None:
                            break
                    if nxt is None:
                        tg = [tgt for _, tgt in t["arms"]]
                        if t["else"] not in tg and len(names) > len(t["arms"]):
                            tg.append(t["else"])
                        nxt = tg[self.choose(len(tg), "enum")]
                    bb = nxt
                    continue
                if not isinstance(v, int):
                    if not self.lenient:
                        raise Abort("switch on non-concrete value %r in %s bb%d (L%s)" % (v, fn.path, bb, t.get("ln")))
                    tg = []
                    for _, tgt in t["arms"]:
                        if tgt not in tg:
                            tg.append(tgt)
                    if t["else"] not in tg:
                        tg.append(t["else"])
                    bb = tg[self.choose(len(tg), "switch")]
                    continue
                nxt = t["else"]
                for val, tgt in t["arms"]:
                    if val == v:
                        nxt = tgt
                        break
                bb = nxt
            elif k == "call":
                argv = [self.operand(fr, a) for a in t["args"]]
                res = self.do_call(fr, t, argv, depth, bb)
                self.write(fr, t["dest"], res)
                if t.get("to") is None:
                    raise Abort("diverging call %s" % (t.get("rp") or t.get("p")))
                bb = t["to"]
            elif k == "unreachable":
                raise Abort("reached `unreachable` in %s bb%d (L%s)" % (fn.path, bb, t.get("ln")))
            elif k == "yield" and self.lenient:
                raise Abort("reached a Pending await in %s" % fn.path)
            else:
                raise Abort("unsupported terminator %s in %s" % (k, fn.path))

    def do_call(self, frame, t, argv, depth, bb=None):
        names = [t.get(k) or "" for k in ("rp", "p", "full")]
        for sub, hook in self.hooks:
            if any(sub in n for n in names):
                return hook(self, t, argv)
        if self.lenient:
            r = self._builtin(frame, t, argv, depth, bb, names)
            if r is not NotImplemented:
                return r
        rid = t.get("rid")
        if rid and rid in self.db.fns and self.db.fns[rid].focus and "{closure" not in rid:
            return self.call_fn(self.db.fns[rid], argv, depth + 1)
        if self.lenient:
            self.unknown_calls.add(names[0] or names[1])
            return UNK
        raise Abort("unknown call %s at L%s in %s" % (names[0] or names[1], t.get("ln"), frame.fn.path))

    def _builtin(self, frame, t, argv, depth, bb, names):
        nm = names[0] or names[1]
        full = names[2]
        if "IntoFuture>::into_future" in nm or "IntoFuture::into_future" in nm or "Pin::<Ptr>::new_unchecked" in nm or \
                "Pin<Ptr>>::new_unchecked" in nm or nm.endswith("::new_unchecked"):
            return argv[0]
        if "future::get_context" in nm:
            return UNK
        if "Future>::poll" in nm or "Future::poll" in nm or "::{closure#" in nm and "poll" in (t.get("p") or ""):
            target = self.deref(argv[0])
            if isinstance(target, dict) and "$closure" in target and target["$closure"] in self.db.fns and \
                    self.db.fns[target["$closure"]].focus:
                v = self.call_fn(self.db.fns[target["$closure"]], [target, UNK], depth + 1)
                return mk_adt("Poll", "Ready", {"0": v})
            if isinstance(target, tuple) and len(target) == 2 and target[0] == "future":
                return mk_adt("Poll", "Ready", {"0": target[1]})
            return mk_adt("Poll", "Ready", {"0": UNK})
        if "Iterator>::next" in nm or "Iterator::next" in nm:
            n = frame.sites.get(bb, 0)
            frame.sites[bb] = n + 1
            return mk_some(UNK) if n < self.loop_iters else mk_none()
        if "Try>::branch" in nm or "Try::branch" in nm:
            v = self.deref(argv[0])
            if isinstance(v, dict) and v.get("$variant") in ("Ok", "Some"):
                return mk_adt("ControlFlow", "Continue", {"0": v.get("0", UNK)})
            if isinstance(v, dict) and v.get("$variant") in ("Err", "None"):
                return mk_adt("ControlFlow", "Break", {"0": v})
            return UNK
        if "FromResidual" in nm and "from_residual" in nm:
            v = self.deref(argv[0])
            if isinstance(v, dict) and v.get("$variant") in ("Err", "None"):
                return v   # `?` re-raises the residual of the same shape (error conversion is opaque and irrelevant here)
            return UNK
        if "Clone>::clone" in nm or nm.endswith("::clone"):
            v = self.deref(argv[0])
            return clone(v)
        if "Deref>::deref" in nm or "DerefMut>::deref_mut" in nm or "AsRef" in nm and "::as_ref" in nm or "Borrow" in nm and "::borrow" in nm:
            return argv[0]
        return NotImplemented

    def deref(self, v):
        n = 0
        while isinstance(v, Ref) and n < 50:
            v = self.read(v.frame, v.place)
            n += 1
        return v


def clone(v):
    if isinstance(v, Ref) or v is UNK:
        return v
    try:
        return copy.deepcopy(v)
    except Exception:
        return v

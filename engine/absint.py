"""Finite-domain abstract interpreter over lens MIR facts (rule kind TABLE, DESIGN.md 2.2).

It walks the dumped CFG of small, loop-free functions with abstract values:
  * sets of row ids are abstracted pointwise to one bit: "is the arbitrary-but-fixed row x a member";
    union / intersection / difference are the Boolean connectives on that bit (ASSUMED of
    RowIdTreeMap / RoaringBitmap); `is_empty()` on a set whose bit is 0 is unknown and forks.
  * Option / struct / tuple / enum values are kept structurally, so every `match` on a discriminant is
    decided by the enumerated input shape;
  * anything outside the supported subset (loops beyond a step bound, unknown calls, raw pointers)
    raises Abort and the rule instance FAILS CLOSED.
This is dataflow over a finite lattice enumerated exhaustively, not execution of Lance code and not
symbolic execution: no solver, no concrete row ids, no memory model beyond locals.
"""
import copy

from .cfg import op_place


class Abort(Exception):
    pass


class SetBit:
    """Pointwise abstraction of a row-id set: membership bit of the fixed row x."""
    __slots__ = ("bit",)

    def __init__(self, bit):
        self.bit = bool(bit)

    def __repr__(self):
        return "Set[%d]" % self.bit


class Ref:
    __slots__ = ("frame", "place")

    def __init__(self, frame, place):
        self.frame = frame
        self.place = place


UNK = ("unknown",)


def mk_none():
    return {"$adt": "Option", "$variant": "None"}


def mk_some(v):
    return {"$adt": "Option", "$variant": "Some", "0": v}


def mk_adt(adt, variant, fields):
    d = {"$adt": adt, "$variant": variant}
    d.update(fields)
    return d


class Frame:
    def __init__(self, fn):
        self.fn = fn
        self.locals = {}


class Interp:
    def __init__(self, db, hooks, step_limit=2000, depth_limit=6):
        self.db = db
        self.hooks = hooks          # list of (substring, callable(interp, term, argvals) -> value)
        self.step_limit = step_limit
        self.depth_limit = depth_limit
        self.choices = []
        self.pos = 0
        self.widths = []
        self.visited_fns = set()

    # ---- nondeterminism (forks are enumerated exhaustively by `explore`) -----------
    def choose(self, n, why=""):
        if self.pos < len(self.choices):
            c = self.choices[self.pos]
        else:
            c = 0
            self.choices.append(0)
            self.widths.append(n)
        self.pos += 1
        return c

    def explore(self, thunk):
        """Run thunk() for every combination of fork decisions; yields results."""
        self.choices = []
        self.widths = []
        while True:
            self.pos = 0
            yield thunk()
            # backtrack
            while self.choices and self.choices[-1] + 1 >= self.widths[len(self.choices) - 1]:
                self.choices.pop()
                self.widths.pop()
            if not self.choices:
                return
            self.choices[-1] += 1
            self.widths = self.widths[:len(self.choices)]

    # ---- places ------------------------------------------------------------------
    def read(self, frame, place):
        if place[0] not in frame.locals:
            raise Abort("read of unset local _%d in %s" % (place[0], frame.fn.path))
        v = frame.locals[place[0]]
        for e in place[1:]:
            v = self._proj(v, e, frame)
        return v

    def _proj(self, v, e, frame):
        if e == "*":
            if isinstance(v, Ref):
                return self.read(v.frame, v.place)
            if isinstance(v, str):
                return v  # &'static str constant: the referent is the string itself
            raise Abort("deref of non-reference %r in %s" % (v, frame.fn.path))
        if isinstance(e, dict):
            if "f" in e:
                if isinstance(v, dict):
                    if e["f"] not in v:
                        raise Abort("field %s missing on %r" % (e["f"], v))
                    return v[e["f"]]
                if isinstance(v, list):
                    return v[int(e["f"])]
                raise Abort("field %s of non-aggregate %r" % (e["f"], v))
            if "d" in e:
                if isinstance(v, dict) and v.get("$variant") == e["d"]:
                    return v
                raise Abort("downcast to %s of %r" % (e["d"], v))
        raise Abort("unsupported projection %r" % (e,))

    def write(self, frame, place, val):
        if len(place) == 1:
            frame.locals[place[0]] = val
            return
        # navigate to the container of the last projection
        base = [place[0]]
        cur_frame = frame
        v = frame.locals.get(place[0])
        path = place[1:]
        for i, e in enumerate(path):
            last = i == len(path) - 1
            if e == "*":
                if not isinstance(v, Ref):
                    raise Abort("write through non-reference")
                if last:
                    self.write(v.frame, v.place, val)
                    return
                cur_frame, base = v.frame, list(v.place)
                v = self.read(v.frame, v.place)
                continue
            if isinstance(e, dict) and "f" in e:
                if last:
                    if isinstance(v, dict):
                        v[e["f"]] = val
                    elif isinstance(v, list):
                        v[int(e["f"])] = val
                    else:
                        raise Abort("field write on %r" % (v,))
                    return
                v = self._proj(v, e, cur_frame)
                continue
            if isinstance(e, dict) and "d" in e:
                continue
            raise Abort("unsupported write projection %r" % (e,))

    def operand(self, frame, op):
        p = op_place(op)
        if p is not None:
            return self.read(frame, p)
        if "v" in op:
            return op["v"]
        if "fn" in op:
            return ("fnitem", op.get("rp") or op.get("p"))
        if op.get("ty") == "()":
            return []
        return UNK

    # ---- rvalues -----------------------------------------------------------------
    def rvalue(self, frame, rv):
        r = rv["r"]
        if r == "use":
            return self.operand(frame, rv["op"])
        if r == "ref":
            return Ref(frame, rv["place"])
        if r == "discr":
            v = self.read(frame, rv["place"])
            if not isinstance(v, dict) or "$variant" not in v:
                raise Abort("discriminant of %r" % (v,))
            inv = {name: int(d) for d, name in rv.get("vars", {}).items()}
            if v["$variant"] not in inv:
                raise Abort("variant %s not in %s" % (v["$variant"], inv))
            return inv[v["$variant"]]
        if r == "agg":
            ops = [self.operand(frame, o) for o in rv["ops"]]
            if rv.get("adt"):
                return mk_adt(rv["adt"].split("::")[-1], rv["variant"], dict(zip(rv["fields"], ops)))
            if rv.get("tuple") or rv.get("array"):
                return ops
            raise Abort("unsupported aggregate %r" % rv)
        if r == "un":
            a = self.operand(frame, rv["a"])
            if rv["op"] == "Not" and isinstance(a, bool):
                return not a
            raise Abort("unsupported unary %s on %r" % (rv["op"], a))
        if r == "bin":
            a = self.operand(frame, rv["a"])
            b = self.operand(frame, rv["b"])
            op = rv["op"]
            if a is UNK or b is UNK:
                raise Abort("binary op on unknown")
            table = {"Eq": lambda: a == b, "Ne": lambda: a != b, "BitAnd": lambda: a & b, "BitOr": lambda: a | b,
                     "BitXor": lambda: a ^ b, "Lt": lambda: a < b, "Le": lambda: a <= b, "Gt": lambda: a > b,
                     "Ge": lambda: a >= b}
            if op in table:
                return table[op]()
            raise Abort("unsupported binary %s" % op)
        if r == "cast":
            return self.operand(frame, rv["op"])
        raise Abort("unsupported rvalue %s" % r)

    # ---- execution ---------------------------------------------------------------
    def call_fn(self, fn, args, depth=0):
        if depth > self.depth_limit:
            raise Abort("call depth limit")
        if not fn.focus:
            raise Abort("callee %s has no CFG facts" % fn.path)
        self.visited_fns.add(fn)
        fr = Frame(fn)
        argc = fn.r["argc"]
        if len(args) != argc:
            raise Abort("arity mismatch calling %s" % fn.path)
        for i, a in enumerate(args):
            fr.locals[i + 1] = a
        bb = 0
        steps = 0
        blocks = fn.blocks
        while True:
            steps += 1
            if steps > self.step_limit:
                raise Abort("step limit in %s (loop?)" % fn.path)
            b = blocks[bb]
            for s in b["st"]:
                if "rv" in s:
                    self.write(fr, s["lhs"], self.rvalue(fr, s["rv"]))
                elif "setdiscr" in s:
                    raise Abort("SetDiscriminant unsupported")
            t = b["term"]
            k = t["t"]
            if k == "goto":
                bb = t["to"]
            elif k == "drop":
                bb = t["to"]
            elif k == "return":
                return fr.locals.get(0, [])
            elif k == "switch":
                v = self.operand(fr, t["on"])
                if isinstance(v, bool):
                    v = int(v)
                if not isinstance(v, int):
                    raise Abort("switch on non-concrete value %r in %s bb%d (L%s)" % (v, fn.path, bb, t.get("ln")))
                nxt = t["else"]
                for val, tgt in t["arms"]:
                    if val == v:
                        nxt = tgt
                        break
                bb = nxt
            elif k == "call":
                argv = [self.operand(fr, a) for a in t["args"]]
                res = self.do_call(fr, t, argv, depth)
                self.write(fr, t["dest"], res)
                if t.get("to") is None:
                    raise Abort("diverging call %s" % (t.get("rp") or t.get("p")))
                bb = t["to"]
            elif k == "assert":
                bb = t["to"]
            elif k == "unreachable":
                raise Abort("reached `unreachable` in %s bb%d (L%s)" % (fn.path, bb, t.get("ln")))
            else:
                raise Abort("unsupported terminator %s in %s" % (k, fn.path))

    def do_call(self, frame, t, argv, depth):
        names = [t.get(k) or "" for k in ("rp", "p", "full")]
        for sub, hook in self.hooks:
            if any(sub in n for n in names):
                return hook(self, t, argv)
        rid = t.get("rid")
        if rid and rid in self.db.fns and self.db.fns[rid].focus:
            return self.call_fn(self.db.fns[rid], argv, depth + 1)
        raise Abort("unknown call %s at L%s in %s" % (names[0] or names[1], t.get("ln"), frame.fn.path))

    def deref(self, v):
        while isinstance(v, Ref):
            v = self.read(v.frame, v.place)
        return v


def clone(v):
    return copy.deepcopy(v) if not isinstance(v, Ref) else v

"""Verdict bookkeeping: obligations, floors, violations, known findings, evidence files."""
import json
import os
import time

VERIF = os.path.dirname(os.path.dirname(os.path.abspath(__file__)))
# VERIF_EVIDENCE is only used by the checker self-tests (tools/selftest.py) so that runs against scratch
# mutants do not overwrite the evidence of /repo.
EVIDENCE = os.environ.get("VERIF_EVIDENCE", os.path.join(VERIF, "evidence"))
REPLAY = os.path.join(EVIDENCE, "replay")
KNOWN = os.path.join(VERIF, "known_findings.json")


def load_known():
    if not os.path.exists(KNOWN):
        return {"findings": [], "fixed": []}
    with open(KNOWN) as f:
        return json.load(f)


class Check:
    """One run of one property's check."""

    def __init__(self, pid, tier="quick", seed=0, level="other"):
        self.pid = pid
        self.tier = tier
        self.seed = seed
        self.level = level
        self.t0 = time.time()
        self.obligations = []   # dicts: rule, key, ok, detail, loc
        self.violations = []    # dicts: key, msg, loc, data
        self.infos = []
        self.samples = []
        self.functions = set()
        self.assumptions = []
        self.rules = {}
        self.extra = {}
        self.trusted = ["rustc nightly front end (type check, MIR construction)", "lens fact extractor",
                        "rule engine (python)"]

    # ---- recording -----------------------------------------------------------------
    def rule(self, name, text):
        """Declare a rule (kind + what it decides); shows up in evidence."""
        self.rules[name] = text

    def analysed(self, fn):
        self.functions.add("%s (%s)" % (fn.path, fn.loc()))

    def ob(self, rule, key, ok, detail="", loc=None, data=None):
        """Record one obligation (rule instance).  A failing obligation is a violation keyed by
        `rule|key` (no line numbers in keys)."""
        self.obligations.append({"rule": rule, "key": key, "ok": bool(ok), "detail": detail, "loc": loc})
        if not ok:
            self.violations.append({"key": "%s|%s" % (rule, key), "msg": detail, "loc": loc, "data": data})
        return ok

    def floor(self, rule, what, count, minimum):
        """Anti-vacuity: the number of matched sites must not fall below the hand-confirmed floor."""
        ok = count >= minimum
        self.ob(rule, "floor:%s" % what, ok,
                "%s: matched %d site(s), confirmed floor %d%s" % (what, count, minimum,
                                                                    "" if ok else " -- anchor lost or rule vacuous"))
        return ok

    def info(self, text):
        self.infos.append(text)

    def sample(self, s):
        if len(self.samples) < 12:
            self.samples.append(s)

    def assume(self, text):
        if text not in self.assumptions:
            self.assumptions.append(text)

    # ---- finishing -----------------------------------------------------------------
    def finish(self, crashed=None):
        known = load_known()
        open_keys = {}
        for k in known.get("findings", []):
            if k.get("property") == self.pid:
                open_keys[k["key"]] = k
        new = []
        listed = []
        for v in self.violations:
            if v["key"] in open_keys:
                listed.append(v)
            else:
                new.append(v)
        os.makedirs(REPLAY, exist_ok=True)
        lines = []
        for v in listed:
            lines.append("KNOWN-FINDING: property=%s %s [%s] %s" % (self.pid, v["key"], v.get("loc") or "-", v["msg"]))
        replay_paths = []
        for n, v in enumerate(new):
            path = os.path.join(REPLAY, "%s-%d.json" % (self.pid, n))
            with open(path, "w") as f:
                json.dump({"property": self.pid, "violation": v, "tier": self.tier}, f, indent=1, default=str)
            replay_paths.append(path)
            lines.append("  violation %s at %s: %s" % (v["key"], v.get("loc") or "-", v["msg"]))
            lines.append("VIOLATION property=%s replay=%s" % (self.pid, path))
        n_ob = len(self.obligations)
        n_ok = sum(1 for o in self.obligations if o["ok"])
        distinct = len({(o["rule"], o["key"]) for o in self.obligations})
        cov = {
            "explanation": "Static analysis of /repo's current source via lens facts (MIR of the type-checked "
                           "program). Rules: " + "; ".join("%s = %s" % kv for kv in sorted(self.rules.items())),
            "evaluations": n_ob,
            "distinct_nontrivial": distinct,
            "rule": "one evaluation = one rule instance (call site, path, match arm, table row, constant) "
                    "inspected; distinct = distinct (rule, instance-key) pairs",
            "obligations": n_ob,
            "discharged": n_ok,
            "checker_cmd": "./check %s --tier %s" % (self.pid, self.tier),
            "trusted_base": self.trusted,
            "samples": self.samples or [o for o in self.obligations[:5]],
            "functions_analysed": sorted(self.functions),
            "rule_instances": self.obligations if len(self.obligations) <= 600 else self.obligations[:600],
            "info": self.infos,
            "known_findings_reported": [v["key"] for v in listed],
        }
        cov.update(self.extra)
        ev = {
            "property_id": self.pid,
            "tier": self.tier,
            "seed": self.seed,
            "level": self.level,
            "coverage": cov,
            "assumptions": self.assumptions,
            "wall_s": round(time.time() - self.t0, 3),
            "violations": len(new),
        }
        if crashed:
            ev["coverage"]["crashed"] = crashed
        os.makedirs(EVIDENCE, exist_ok=True)
        tmp = os.path.join(EVIDENCE, "%s.json.tmp%d" % (self.pid, os.getpid()))
        with open(tmp, "w") as f:
            json.dump(ev, f, indent=1, default=str)
        os.replace(tmp, os.path.join(EVIDENCE, "%s.json" % self.pid))
        for ln in lines:
            print(ln)
        print("[%s] tier=%s obligations=%d discharged=%d new_violations=%d known=%d functions=%d wall=%.1fs" % (
            self.pid, self.tier, n_ob, n_ok, len(new), len(listed), len(self.functions), time.time() - self.t0))
        return 1 if new else 0

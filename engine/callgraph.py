"""Whole-workspace call graph over lens facts (resolved callee when available, written callee otherwise;
a function is also connected to its nested closures / coroutine bodies, which is how their code gets run)."""
from collections import defaultdict

# storage-mutating primitives (object_store trait methods, lance_io wrappers, local filesystem)
MUTATING_LEAVES = (
    "object_store::ObjectStore::put", "object_store::ObjectStore::put_opts", "object_store::ObjectStore::put_multipart",
    "object_store::ObjectStore::put_multipart_opts", "object_store::ObjectStore::delete", "object_store::ObjectStore::delete_stream",
    "object_store::ObjectStore::copy", "object_store::ObjectStore::copy_if_not_exists", "object_store::ObjectStore::rename",
    "object_store::ObjectStore::rename_if_not_exists",
    "lance_io::object_store::ObjectStore::put", "lance_io::object_store::ObjectStore::create", "lance_io::object_store::ObjectStore::delete",
    "lance_io::object_store::ObjectStore::remove_dir_all", "lance_io::object_store::ObjectStore::remove_stream",
    "lance_io::object_store::ObjectStore::copy", "lance_io::object_store::ObjectStore::rename",
    "lance_io::object_writer::ObjectWriter::new",
    "std::fs::write", "std::fs::remove_file", "std::fs::remove_dir_all", "std::fs::rename", "std::fs::File::create",
    "tokio::fs::write", "tokio::fs::remove_file", "tokio::fs::remove_dir_all", "tokio::fs::rename",
)


def callee_keys(c):
    out = []
    for k in ("rid", "id"):
        if c.get(k):
            out.append(c[k])
    return out


class CallGraph:
    def __init__(self, db):
        self.db = db
        self.succ = defaultdict(set)
        self.names = {}   # node id -> readable name
        for f in db.fns.values():
            self.names[f.id] = f.path
            if f.parent:
                self.succ[f.parent].add(f.id)
            for c in f.calls:
                for k in callee_keys(c):
                    self.succ[f.id].add(k)
                    if k not in self.names:
                        self.names[k] = c.get("rp") if k == c.get("rid") and c.get("rp") else c.get("p")
            for c in f.r.get("fnrefs", []):
                self.succ[f.id].add(c["id"])
                self.names.setdefault(c["id"], c["p"])
        self._may = {}

    def is_leaf(self, node, leaves):
        nm = self._uid_name(node)
        return any(nm == l or nm.endswith("::" + l.split("::", 1)[-1]) and l in nm for l in leaves) or any(l in nm for l in leaves)

    def _uid_name(self, node):
        # unique ids look like crate::path::{impl#n}::name; readable names like lance_io::object_store::ObjectStore::put
        return self.names.get(node) or node

    def may_reach(self, leaves=MUTATING_LEAVES, exact=False):
        """Set of node ids from which a leaf is reachable (leaf = callee whose readable name contains -- or, with
        exact=True, ends with -- one of the given names)."""
        key = (tuple(leaves), exact)
        if key in self._may:
            return self._may[key]
        pred = defaultdict(set)
        for a, bs in self.succ.items():
            for b in bs:
                pred[b].add(a)
        nodes = set(self.succ) | set(pred)

        def is_leaf(n):
            nm = self.names.get(n) or n
            return any(nm.endswith(l) for l in leaves) if exact else any(l in nm for l in leaves)
        work = [n for n in nodes if is_leaf(n)]
        seen = set(work)
        while work:
            n = work.pop()
            for p in pred.get(n, ()):
                if p not in seen:
                    seen.add(p)
                    work.append(p)
        self._may[key] = seen
        return seen

    def path_to_leaf(self, start, leaves=MUTATING_LEAVES, limit=12, exact=False):
        """One witness path (list of readable names) from start to a leaf."""
        from collections import deque
        q = deque([(start, [start])])
        seen = {start}
        while q:
            n, p = q.popleft()
            nm = self.names.get(n) or n
            hit = any(nm.endswith(l) for l in leaves) if exact else any(l in nm for l in leaves)
            if hit and n != start:
                return [self.names.get(x) or x for x in p]
            if len(p) > limit:
                continue
            for s in self.succ.get(n, ()):
                if s not in seen:
                    seen.add(s)
                    q.append((s, p + [s]))
        return None


_CG = None


def get(db):
    global _CG
    if _CG is None or _CG.db is not db:
        _CG = CallGraph(db)
    return _CG

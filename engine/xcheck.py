"""Second opinion on who-may-call rules (thorough tier): clippy's `disallowed_methods`, configured with the functions a
CALLERS rule protects, lists every type-resolved call site of them in the workspace; the sites are mapped to their
enclosing functions through the fact database and compared with the callers the lens call graph reports.  A caller seen by
one engine and not by the other is reported (`XCHECK`), whichever direction: the rule's verdict is only as good as the
call graph it reads.

clippy runs under `cargo +nightly clippy --offline --workspace --lib` with the lens binary as RUSTC_WRAPPER in pass-through
mode (no LENS_OUT: it only swaps the ethnum source, see lens/src/main.rs) and `--cap-lints warn` (the workspace denies
unrelated clippy lints).  Results are cached per (tree hash, protected set) under <cache>/clippy/.
"""
import hashlib
import json
import os
import subprocess

from . import extract

# clippy path of the protected function -> predicate over lens callee ids (db.callers() keys)
PROTECTED = {
    "C01": {
        "lance_table::io::commit::CommitHandler::commit": lambda i: i == "lance_table::io::commit::CommitHandler::commit",
        "lance::dataset::write_manifest_file": lambda i: i == "lance::dataset::write_manifest_file",
        "lance::io::commit::commit_transaction": lambda i: i == "lance::io::commit::commit_transaction",
        "lance::io::commit::do_commit_new_dataset": lambda i: i == "lance::io::commit::do_commit_new_dataset",
        "lance::io::commit::do_commit_detached_transaction": lambda i: i == "lance::io::commit::do_commit_detached_transaction",
    },
    "C22": {
        "lance_table::rowids::RowIdSequence::mask": lambda i: i.startswith("lance_table::rowids::{impl") and i.endswith("::mask"),
        "lance_table::rowids::version::RowDatasetVersionSequence::mask": lambda i: i.startswith("lance_table::rowids::version::{impl") and i.endswith("::mask"),
    },
    "C31": {
        "lance_io::object_writer::UploadState::started_to_putting_single": lambda i: i.endswith("::started_to_putting_single"),
        "lance_io::object_writer::UploadState::in_progress_to_completing": lambda i: i.endswith("::in_progress_to_completing"),
    },
}


def _all_paths():
    return sorted({p for d in PROTECTED.values() for p in d})


def run_clippy(stamp):
    """-> {clippy path: [(file, line)]} for all protected functions, cached for the current tree."""
    paths = _all_paths()
    key = hashlib.sha256((stamp.get("tree", "") + "|" + "|".join(paths)).encode()).hexdigest()[:24]
    cdir = os.path.join(extract.CACHE, "clippy")
    os.makedirs(os.path.join(cdir, "conf"), exist_ok=True)
    out = os.path.join(cdir, key + ".json")
    if os.path.exists(out):
        return json.load(open(out)), True
    with open(os.path.join(cdir, "conf", "clippy.toml"), "w") as f:
        f.write("disallowed-methods = [\n")
        for p in paths:
            f.write('  { path = "%s", reason = "verif who-may-call" },\n' % p)
        f.write("]\n")
    env = dict(os.environ)
    env.update({
        "CARGO_NET_OFFLINE": "true",
        "RUSTC_WRAPPER": extract.LENS,
        "LENS_ETHNUM": os.path.join(extract.VERIF, "vendor", "ethnum-1.5.2", "src", "lib.rs"),
        "CLIPPY_CONF_DIR": os.path.join(cdir, "conf"),
        "CARGO_TARGET_DIR": os.path.join(extract.CACHE, "clippy-target"),
        "LD_LIBRARY_PATH": os.path.join(extract.nightly_sysroot(), "lib") + ":" + env.get("LD_LIBRARY_PATH", ""),
    })
    for k in ("LENS_OUT", "RUSTC_WORKSPACE_WRAPPER", "RUSTFLAGS"):
        env.pop(k, None)
    cmd = ["cargo", "+nightly", "clippy", "--offline", "--workspace", "--lib", "--message-format=json", "--",
           "--cap-lints", "warn", "-W", "clippy::disallowed_methods"]
    p = subprocess.run(cmd, cwd=extract.REPO, env=env, capture_output=True, text=True)
    if p.returncode != 0:
        raise extract.ExtractError("cargo clippy failed:\n" + "\n".join(p.stderr.splitlines()[-25:]))
    res = {x: [] for x in paths}
    seen = set()
    for l in p.stdout.splitlines():
        if not l.startswith("{"):
            continue
        try:
            m = json.loads(l)
        except Exception:
            continue
        if m.get("reason") != "compiler-message":
            continue
        msg = m["message"]
        if (msg.get("code") or {}).get("code") != "clippy::disallowed_methods":
            continue
        text = msg.get("message", "")
        which = [x for x in paths if "`%s`" % x in text]
        if not which:
            continue
        for sp in msg.get("spans", []):
            if not sp.get("is_primary"):
                continue
            k = (which[0], sp["file_name"], sp["line_start"])
            if k not in seen:
                seen.add(k)
                res[which[0]].append([sp["file_name"], sp["line_start"]])
    json.dump(res, open(out, "w"))
    return res, False


def enclosing_root(db, file, line):
    best = None
    for f in db.fns.values():
        if f.file == file and f.r.get("body_lo", 1 << 30) <= line <= f.r.get("body_hi", -1):
            if best is None or f.r["body_lo"] >= best.r["body_lo"]:
                best = f
    return best.root() if best is not None else None


def cross_check(db, chk, pid):
    """Adds XCHECK obligations for property pid's protected functions."""
    R = "XCHECK-callers"
    table = PROTECTED.get(pid)
    if not table:
        return
    chk.rule(R, "clippy disallowed_methods and the lens call graph agree on the callers of the protected functions")
    res, cached = run_clippy(db.stamp)
    chk.extra["xcheck_clippy_cached"] = cached
    cal = db.callers()
    n_sites = 0
    for path, pred in sorted(table.items()):
        sites = res.get(path, [])
        n_sites += len(sites)
        a = set()
        for file, line in sites:
            r = enclosing_root(db, file, line)
            a.add(r.path if r is not None else "%s:%s (no enclosing function in the facts)" % (file, line))
        b = set()
        for cid, lst in cal.items():
            if pred(cid):
                for f, c in lst:
                    if c.get("fnref"):
                        continue        # a function value, not a call: clippy reports calls only
                    b.add(f.root().path)
        only_clippy, only_lens = sorted(a - b), sorted(b - a)
        chk.ob(R, path, not only_clippy and not only_lens,
               "%s: %d call site(s) by clippy in %d function(s); lens sees %d calling function(s)%s%s" % (
                   path, len(sites), len(a), len(b),
                   "; ONLY clippy: %s" % only_clippy if only_clippy else "", "; ONLY lens: %s" % only_lens if only_lens else ""))
    chk.floor(R, "call sites reported by clippy for this property's functions", n_sites, 2)

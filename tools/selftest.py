#!/usr/bin/env python3
"""Checker self-tests: each mutant breaks ONE rule instance in a scratch worktree of /repo (never in /repo itself),
still compiles, and must make exactly the named check report the named instance.

  tools/selftest.py [--only NAME[,NAME..]] [--list] [--keep]

Scratch worktree: /var/tmp/lance-verif-mut (removed at the end unless --keep); its own fact cache /verif/.cache-mut
(dependency metadata is copied from /verif/.cache the first time, so no cold build).  Results: /verif/selftest_results.json.
"""
import argparse
import json
import os
import shutil
import subprocess
import sys
import time

VERIF = os.path.dirname(os.path.dirname(os.path.abspath(__file__)))
sys.path.insert(0, VERIF)
from tools.mutants import MUTANTS  # noqa: E402

WT = "/var/tmp/lance-verif-mut"
CACHE = os.path.join(VERIF, ".cache-mut")


def sh(cmd, **kw):
    return subprocess.run(cmd, shell=True, capture_output=True, text=True, **kw)


def setup():
    if not os.path.isdir(WT):
        r = sh("git -C /repo worktree add --detach %s HEAD" % WT)
        if r.returncode != 0:
            sys.exit("worktree add failed: " + r.stderr)
    else:
        sh("git -C %s checkout -- . && git -C %s checkout --detach $(git -C /repo rev-parse HEAD)" % (WT, WT))
    os.makedirs(CACHE, exist_ok=True)
    if not os.path.isdir(os.path.join(CACHE, "target")) and os.path.isdir(os.path.join(VERIF, ".cache", "target")):
        print("[selftest] copying dependency cache ...", file=sys.stderr)
        sh("cp -a %s %s" % (os.path.join(VERIF, ".cache", "target"), os.path.join(CACHE, "target")))


def seeded():
    """The independently seeded changes kept under /verif/seeded/<dir>/ (meta.json names the property, the patch and
    the report key that must appear); they run through the same loop as the hand-written mutants."""
    out = []
    root = os.path.join(VERIF, "seeded")
    for d in sorted(os.listdir(root)) if os.path.isdir(root) else []:
        mp = os.path.join(root, d, "meta.json")
        if not os.path.exists(mp):
            continue
        meta = json.load(open(mp))
        out.append({"name": "seeded_" + d, "prop": meta["property"], "patch": os.path.join(root, d, meta.get("patch", "patch.diff")),
                    "expect": meta.get("expect_key", ""), "what": meta.get("summary", ""), "expect_status": meta.get("status", "caught")})
    return out


def apply(m):
    if m.get("patch"):
        return sh("git -C %s apply %s" % (WT, m["patch"])).returncode == 0
    p = os.path.join(WT, m["file"])
    s = open(p).read()
    old, new = m["old"], m["new"]
    occ = m.get("occ", 0)
    idx = -1
    start = 0
    for _ in range(occ + 1):
        idx = s.find(old, start)
        if idx < 0:
            return False
        start = idx + 1
    s = s[:idx] + new + s[idx + len(old):]
    open(p, "w").write(s)
    return True


def run_check(prop):
    env = dict(os.environ, VERIF_REPO=WT, VERIF_CACHE=CACHE, VERIF_EVIDENCE=os.path.join(CACHE, "evidence"))
    r = subprocess.run([os.path.join(VERIF, "check"), prop], capture_output=True, text=True, env=env, cwd=VERIF)
    return r.returncode, r.stdout + r.stderr


def main():
    ap = argparse.ArgumentParser()
    ap.add_argument("--only")
    ap.add_argument("--list", action="store_true")
    ap.add_argument("--keep", action="store_true")
    ap.add_argument("--baseline", action="store_true", help="also run every property on the unmutated scratch tree first")
    a = ap.parse_args()
    muts = MUTANTS + seeded()
    if a.only:
        names = set(a.only.split(","))
        muts = [m for m in muts if m["name"] in names or m["prop"] in names]
    if a.list:
        for m in muts:
            print(m["name"], m["prop"], m["expect"])
        return 0
    setup()
    results = []
    res_path = os.path.join(VERIF, "selftest_results.json")
    prev = {}
    if os.path.exists(res_path):
        try:
            prev = {r["name"]: r for r in json.load(open(res_path))["results"]}
        except Exception:
            prev = {}
    if a.baseline:
        for prop in sorted({m["prop"] for m in muts}):
            code, out = run_check(prop)
            print("[baseline] %s exit=%d" % (prop, code))
    for m in muts:
        t0 = time.time()
        sh("git -C %s checkout -- ." % WT)
        if not apply(m):
            res = {"name": m["name"], "prop": m["prop"], "status": "PATCH-DID-NOT-APPLY"}
        else:
            code, out = run_check(m["prop"])
            viol = [l for l in out.splitlines() if l.strip().startswith("violation ")]
            hit = [l for l in viol if m["expect"] and m["expect"] in l]
            if code == 3:
                status = "DID-NOT-COMPILE"
            elif hit:
                status = "CAUGHT"
            elif code == 1:
                status = "OTHER-VIOLATION-ONLY"
            elif m.get("expect_status") == "not-decided":
                status = "NOT-DECIDED"      # a seeded change in a clause DESIGN.md declares undecided (values / set algebra): recorded, not a failure
            else:
                status = "MISSED"
            res = {"name": m["name"], "prop": m["prop"], "status": status, "expect": m["expect"],
                   "reported": [l.strip()[:220] for l in viol][:6], "exit": code, "what": m.get("what", ""),
                   "wall_s": round(time.time() - t0, 1)}
            if code == 3:
                res["log"] = out[-1500:]
        print("[selftest] %-34s %-4s %s (%.0fs)" % (m["name"], m["prop"], res["status"], time.time() - t0), flush=True)
        results.append(res)
        prev[m["name"]] = res
        with open(res_path, "w") as f:
            json.dump({"results": [prev[k] for k in sorted(prev)]}, f, indent=1)
    sh("git -C %s checkout -- ." % WT)
    if not a.keep:
        sh("git -C /repo worktree remove --force %s" % WT)
    bad = [r for r in results if r["status"] not in ("CAUGHT", "NOT-DECIDED")]
    print("[selftest] %d mutants, %d caught, %d not" % (len(results), len(results) - len(bad), len(bad)))
    return 1 if bad else 0


if __name__ == "__main__":
    sys.exit(main())

#!/usr/bin/env python3
"""Generate /verif/MANIFEST.json from the table below (single source of truth)."""
import json
import os

VERIF = os.path.dirname(os.path.dirname(os.path.abspath(__file__)))

TB = ("Trusted: rustc nightly front end (same source, default features; repository pins 1.90), the lens fact "
      "extractor and the python rule engine. ")

# property -> (category, technique, text, note, design_ref)
CLAIMED = {
    "C21": ("proof",
            "finite abstract interpretation of MIR + exhaustive table check",
            "The Exact/AtMost/AtLeast combination table (21 rows) is extracted from ScalarIndexExpr::evaluate's MIR by "
            "constrained reachability and each row is checked over all membership/truth assignments; the RowIdMask "
            "operators (!, &, |, normalize, also_block, also_allow, constructors, selected) are interpreted from "
            "their MIR over all (allow,block) shapes x membership bits against the set-algebra specification. "
            "All obligations are enumerated exhaustively, so for these tables the property is decided, not sampled.",
            TB + "Assumes RowIdTreeMap/RoaringBitmap |,&,-,contains,is_empty are the set operations they name; "
                 "insert_range boundaries, len, iteration and serialisation are value-level and not decided.",
            "DESIGN.md 3 C21"),
}

def _c(cat, tech, text, note, ref):
    return (cat, tech, text, TB + note, ref)


CLAIMED.update({
    "C01": _c("other", "who-may-call + call-graph effect closure + dominance/origin in the commit funnels",
              "The publication funnel is closed (resolved callers of CommitHandler::commit, write_manifest_file, the ManifestWriter value "
              "and the three commit funnels equal the reviewed table); the only functions passing a `_versions/` path to a mutating store "
              "call are the reviewed handlers; in every funnel the transaction file and the manifest build precede publication, their "
              "errors stop it, and after a successful publication no storage-mutating call (whole-workspace call-graph closure over store "
              "primitives) is reachable except the reviewed cache/cleanup hooks; the published number is <re-loaded latest>+1 with the "
              "detached range refused, detached commits use random|MASK with V2 names.",
              "Store-primitive atomicity is C02's; what a reader observes at a concrete crash point and that data files are closed "
              "before being named are not decided; the inventory of `_versions/` writers covers the focus files (lance-table, "
              "lance/src/dataset/**, lance/src/io/commit*).", "DESIGN.md 3 C01"),
    "C05": _c("other", "must-pass-through (dominance) of normalisers in build_manifest / write_manifest_file",
              "Every successful return of build_manifest is dominated by the fragment sort, tombstone removal and max-fragment-id update; "
              "every arm introducing fragments assigns ids through the build's counter (which restarts at 0 only for Overwrite); arms "
              "that change schema or fragment list drop stale indices; flags and max fragment id are recomputed before the handler is "
              "called and the sanity checks precede publication and stop it on error.",
              "The invariants as facts about data (row counts, deletion positions) are not decided.", "DESIGN.md 3 C05"),
    "C10": _c("other", "ORDER/DOM analysis with constant propagation of the `copied` flag",
              "External-store commit: stage -> put_if_not_exists -> finalize with the failure edge deleting staging and never finalising; "
              "finalize: copy -> put_if_exists -> delete(staging), with copied=false never flipping/deleting and returning only after "
              "head(final), copied=true always flipping before success; readers return store-provided paths only when final or through "
              "the repair.",
              "The external store's conditional writes are trusted; the DynamoDB implementation (feature off) is not analysed.",
              "DESIGN.md 3 C10"),
    "C06": _c("other", "value-origin analysis of new file names + inventory of destructive store calls",
              "Every new deletion file id, data-file name, index directory and transaction file name originates from a random / uuid "
              "source, and the set of workspace functions (outside the store-wrapper layer) that delete, rename, copy over or remove "
              "directories equals a reviewed table, each entry with the reason it cannot touch a file a published version references.",
              "Equality of scans over time is not decided; C02 (manifests never change) and C08 (cleanup) are prerequisites decided there.",
              "DESIGN.md 3 C06"),
    "C08": _c("proof", "finite success-path abstract interpretation of the cleanup decision functions + dominance",
              "path_if_not_referenced is interpreted for every combination of path class, extension, maybe_in_progress, uuid presence "
              "and referenced/verified set answers (all paths enumerated): a path is returned for deletion only if its class's referenced "
              "set was consulted and does not contain it and it is verified or not possibly in progress; process_manifest_file's working-set "
              "flag and old-manifest decision are interpreted over all (is_latest, should_clean, is_tagged); process_manifest collects "
              "every referenced file kind into the right set; should_clean is the conjunction of the configured bounds; inspection "
              "precedes deletion and read errors propagate; the in-progress guard and its 7-day threshold are wired as documented.",
              "Success-path interpretation: opaque calls succeed, each loop body is walked once; races and clocks are not decided.",
              "DESIGN.md 3 C08"),
    "C09": _c("other", "validator dominance + record origin analysis + interpreted validators",
              "In every public Tags/Branches method the validator of the operated name succeeds before the first store call; the "
              "record written carries the method's own branch/version parameters at the path of the validated name; the referenced "
              "manifest's existence gates the put; create never overwrites, update requires presence; branch delete removes the record "
              "before directories obtained from get_cleanup_path; the validators reject separator/traversal names (interpreted on "
              "constants).",
              "Name grammar exactness and the prefix arithmetic of get_cleanup_path are value-level (a defect there was found by reading "
              "and repaired); cross-branch read isolation is not decided.", "DESIGN.md 3 C09"),
    "C19": _c("proof", "finite abstract interpretation of the planner's combination functions",
              "C21's tables plus: maybe_not / maybe_or / and / needs_recheck interpreted over all shapes (negation refused for inexact "
              "or mixed results, OR refused with refine parts, recheck = disjunction over leaves); SargableQueryParser returns None "
              "whenever a literal is NULL, each literal tested; exact indices build their parser with needs_recheck=false and only "
              "construct SearchResult::Exact.",
              "Index contents, remap/update histories and literal coercion are not decided.", "DESIGN.md 3 C19"),
    "C20": _c("other", "result-kind inventory + enum-arm analysis of the consumers",
              "Inexact indices construct only AtMost (n-gram additionally Exact/AtLeast of a fresh empty set), their parsers demand and "
              "propagate needs_recheck, FilteredReadExec applies the full filter unless the result is Exact (or AtLeast under limit "
              "push-down), rows outside the mask are skipped only for result kinds that bound the answer from above, and the scanner "
              "plans a post-index filter whenever a recheck is needed.",
              "That zone statistics / bloom bits / trigram postings are supersets is not decided.", "DESIGN.md 3 C20"),
    "C26": _c("other", "writer/reader dispatch agreement (AGREE) over the call graph and enum arms",
              "For each compressor family the Compression variants an implementation can emit as its description (description-helper "
              "calls reachable from compress / the strategy function, each helper mapped to the variant it constructs) are a subset of "
              "the variants the matching create_*_decompressor decodes with a non-error arm; every variant of the oneof is decodable "
              "somewhere or emitted nowhere.",
              "Losslessness itself (decompress(compress(x)) = x) and block-size limits are value-level and not decided.",
              "DESIGN.md 3 C26"),
    "C31": _c("other", "who-may-call over the call graph + enum-arm analysis of the upload state machine",
              "The two calls that make an object visible (single PUT, multipart complete) are made only from the two state-transition "
              "helpers, which are called only from poll_shutdown; poll_write/poll_flush cannot reach them; abort and Drop abort an "
              "in-progress upload and never complete; Done is entered only from a completed visibility future or as a placeholder; the "
              "bytes made visible are the writer's own buffer and completion waits for all parts.",
              "Byte equality, retries and store-side atomicity of multipart completion are not decided.", "DESIGN.md 3 C31"),
    "C36": _c("other", "format-template + origin analysis of catalog predicates and id joins",
              "Every value interpolated inside a quoted SQL literal of a catalog predicate handed to Scanner::filter / Dataset::delete must "
              "come from a sanitiser, every component joined with the id delimiter must have been checked not to contain it, and "
              "user-supplied locations are rejected when absolute or escaping the root.",
              "Map semantics and pagination are not decided.", "DESIGN.md 3 C36"),
    "C38": _c("other", "key-struct coverage + discriminator classification of every CacheKey",
              "Every CacheKey builds its string from all fields of its struct, prefixes sharing a cache are distinct, Dataset cache "
              "handles are dataset-scoped (for_dataset(uri)), and session-cache keys must carry a content/incarnation discriminator "
              "rather than only a version or fragment number.",
              "Result equality under eviction is not decided.", "DESIGN.md 3 C38"),
    "C17": _c("other", "value-origin + enum-arm analysis of version stamping in build_manifest",
              "Only the clause 'new rows are stamped with the version being published': every version number handed to "
              "build_version_meta in build_manifest derives from the current (re-loaded) manifest's version + 1 with 1 as the only "
              "fallback and never from the transaction's read version; the Append / Overwrite / Update arms write the created-at and "
              "last-updated metadata of new fragments from that stamp, under the stable-row-id guard. A necessary condition (a stamp "
              "from the read version is wrong for every rebased commit); the per-row sequences and delta queries are not decided.",
              "build_version_meta is trusted to stamp every physical row; carry-over through compaction is value-level.",
              "DESIGN.md 3 C17"),
    "C13": _c("other", "mode-constant-propagating must-pass / ordering analysis of the compaction task and its commit",
              "Only the carry-over wiring of compaction: the rewrite scan is restricted to the task's fragments, ordered and free of "
              "row/column-changing options; with address ids the scan captures row ids and fragment ids are reserved before the "
              "old->new map is built; with stable ids no successful result skips rechunk_stable_row_ids and "
              "recalc_versions_for_rewritten_fragments (uses_stable_row_ids() propagated as a constant through every test of it, "
              "including the Some/None tuple it selects); the sequences are re-ordered, masked by deletions, rechunked exactly and "
              "stored; commit_compaction publishes one Rewrite whose groups, remapped indices and reuse index come from the tasks. "
              "A necessary condition; row multisets, map values and index answers are not decided.",
              "write_fragments_internal, transpose_row_addrs, rechunk_* and the remapper are trusted to compute the right values.",
              "DESIGN.md 3 C13"),
    "C22": _c("other", "typed call-graph + value-origin analysis of the deletion / filter pre-filter",
              "Only the clause 'deleted rows and rows failing a pre-filter are never returned', as wiring: every call of "
              "RowIdSequence::mask / RowDatasetVersionSequence::mask outside lance-table (found through the workspace call graph) "
              "passes positions from a sorted iterator, never DeletionVector::iter; DatasetPreFilter::new always requests the "
              "deletion mask; create_deletion_mask answers None only with no missing fragment and no deletion file; the block list "
              "holds every listed fragment's deletion vector and every missing fragment, the allow list the union over all fragments "
              "of masked row ids; the final mask is the intersection of filter and deletion masks. Distances, top-k, recall and "
              "whether every search consults the pre-filter are not decided.",
              "The mask algebra (C21) and RowIdSequence::mask on ascending positions are trusted.", "DESIGN.md 3 C22"),
    "C43": _c("other", "attribute-coverage (COVER) analysis of every Field-from-Field construction and of the stored / Arrow conversions",
              "Only the attribute-carrying clause: every place that builds a Field from a Field (projection, exclusion, intersection, "
              "merge: discovered) takes each of name, id, parent_id, logical_type, metadata, encoding, nullable, dictionary, "
              "unenforced_primary_key from the same attribute of a source field; Field <-> pb::Field carries each attribute in its "
              "same-named stored field, children are flattened and re-attached by parent_id, the inline Encoding tables are inverse; "
              "Field <-> ArrowField and Schema <-> ArrowSchema carry name, type, nullability, metadata, fields. The set algebra "
              "(which fields are kept) and path resolution are not decided.",
              "Field::clone (derived) and data_type()/LogicalType round trip are trusted.", "DESIGN.md 3 C43"),
    "C42": _c("other", "descriptor-shape inventory + over-approximating origin analysis of persisted references",
              "Only the clause 'every persisted reference is root-relative': descriptors that point at other objects carry no "
              "location-typed or location-named field beyond the reviewed relative ones; the data-file path stored by every writer "
              "originates from the generated file name and, following every call's arguments (an over-approximation of the function's "
              "data flow), does not depend on the base directory; the transaction reference stored in a manifest is the bare name "
              "returned by write_transaction_file; deletion files are located from the reader's base at read time. A necessary "
              "condition of the property; that a copy reads identical data is not decided.",
              "Path::child semantics are trusted; tables with extra base paths are outside the property.", "DESIGN.md 3 C42"),
    "C32": _c("other", "field-coverage (COVER) analysis of every protobuf conversion",
              "For every domain<->protobuf conversion discovered in the format/transaction/MemWAL/frag-reuse/row-id modules: encode reads "
              "every domain field (per Operation variant inside its arm), every stored field is derived from the source (data flow, "
              "out-parameters or a match on the source) except reviewed legacy slots, decode derives every domain field from the message "
              "and can produce every Operation variant; enum tables are inverse by interpretation.",
              "Byte-level encodings and nested values inside carried fields are not decided.", "DESIGN.md 3 C32"),
    "C02": _c("other", "MIR dominance / origin / enum-arm analysis per commit handler",
              "Protocol shape of every CommitHandler::commit impl in the workspace, on every path of the function: "
              "PutMode::Create on the only write to the final path, staging+rename_if_not_exists, lock<head<write with the write only "
              "on head's NotFound arm and the lease released on all exits, AlreadyExists/Precondition mapped to CommitConflict, and the "
              "scheme->handler table never selecting the unsafe handler for file/s3/gs/az/memory. A necessary condition of the "
              "property; interleavings themselves are not decided.",
              "Atomicity of PutMode::Create / rename_if_not_exists and the lease behind CommitLock are trusted; future cancellation at an "
              "await is not modelled; UnsafeCommitHandler is exempt by its documentation.", "DESIGN.md 3 C02"),
    "C03": _c("other", "decision-table extraction by constrained reachability (ARMS) + lower-bound oracle",
              "The complete 15x15 (self op, concurrent op) conflict table is extracted from check_txn and its 14 checkers; every cell "
              "is classified (always ok / always conflict / conditional + the fields the decision reads) and compared with necessary "
              "conditions derived from build_manifest's semantics (cells that must never be unconditionally compatible, cells whose "
              "decision must read both footprints). The rebase wiring in commit_transaction (all concurrent transactions checked before "
              "finish, rebased transaction and re-loaded manifest feed build_manifest) is decided by dominance.",
              "Only lower bounds: a wrong condition inside a conditional arm is not detected; serial-replay equality is not decided.",
              "DESIGN.md 3 C03"),
    "C04": _c("other", "ARMS cells + dominance/origin in the row-level rebase",
              "Row-level conflict path: the Delete/Update x Delete/Update cells depend on affected rows, data files, deletion files and "
              "both fragment footprints with the three RETRY exits; in finish_delete_update the existing&affected intersection and its "
              "emptiness test dominate every deletion-file write, the union is what is written, existing vectors are read from the current "
              "dataset, and all row-level writers pass affected_rows through to the rebase.",
              "Bitmap contents and that affected_rows lists exactly the touched rows are not decided.", "DESIGN.md 3 C04"),
    "C07": _c("other", "origin analysis on the Restore arm + field-write inventory",
              "On the Restore arm of both commit funnels every path from restore_old_manifest to publication stores "
              "next_row_id = max(restored, latest); restore_old_manifest and the arm write only the reviewed Manifest fields.",
              "Scan equality of the restored version is value-level and not decided.", "DESIGN.md 3 C07"),
    "C18": _c("other", "expression-tree / dominance analysis of the row-id allocator",
              "The row-id counter starts from the current manifest's next_row_id (0 only without a manifest), is only ever advanced by "
              "`+= n` right after handing out the range counter..counter+n with the same n, is stored back on every successful path, and "
              "every arm introducing fragments goes through it.", "Allocator monotonicity only; id preservation through updates/compaction "
              "and resolvability are value-level.", "DESIGN.md 3 C18"),
    "C24": _c("other", "ARMS cells + must-pass-through in build_manifest",
              "CreateIndex vs DataReplacement/Rewrite cells are conditional on indexed fields / fragment bitmaps; the Update arm of "
              "build_manifest prunes rewritten fragments from covering indices on every successful path; the Rewrite arm always "
              "recalculates or remaps; bitmap growth for pure row rewrites is guarded by the field and coverage tests; sibling rule "
              "Update{fields_modified} ~ DataReplacement for concurrent index creation.",
              "Index contents are not decided.", "DESIGN.md 3 C24"),
    "C33": _c("proof", "constant/const-expression agreement + constrained-reachability tables",
              "All naming constants and templates that make V2 names parse back, sort in reverse version order and keep detached, "
              "staging and temporary names out of discovery are checked for agreement (width 20 = digits(u64::MAX) = V2_LEN - 1 - len(ext) = "
              "staging index; same MAX inversion on both sides; prefix is one non-digit byte > '9'; mask is the top bit), detect_scheme's "
              "full decision table is extracted, and discovery only accepts entries that passed detect_scheme and parse_version and only "
              "replaces the candidate under `>`.",
              "Path::child and str::parse::<u64> semantics are trusted; behaviour on arbitrary directory contents is argued from these "
              "constants, not executed.", "DESIGN.md 3 C33"),
    "C37": _c("proof", "constant arithmetic + finite abstract interpretation of MIR + gated dominance",
              "FLAG_* are distinct single bits with FLAG_UNKNOWN the next bit and can_read/can_write are exactly `< FLAG_UNKNOWN`, which "
              "decides the predicates for all 2^64 words; apply_feature_flags resets both words and sets each flag in the required word(s) "
              "under a guard that depends on the matching manifest content; the reader gate dominates every successful load and a writer "
              "gate dominates publication in both commit funnels; LanceFileVersion's parse/display/number/resolve tables are interpreted "
              "from MIR for all 6 variants.",
              "Per-file storage versions of a table are not decided.", "DESIGN.md 3 C37"),
    "C39": _c("other", "state-store inventory with dominating guard + ARMS cells",
              "Every constant State stored into a MemWal anywhere in the workspace is guarded by a check of the pre-image state and is a "
              "forward edge of Open<Sealed<Flushed<Merged; owner checks precede every mutation taking an expected owner; advance creates "
              "generation latest+1; trim removes only Merged entries; the MemWAL conflict cells depend on the generations touched.",
              "Histories and interleavings as such are not decided.", "DESIGN.md 3 C39"),
})

NOT_APPLICABLE = {
    "C11": "round-trip equality of Arrow data through writer, file splitting and scanner is a fact about run-time values; no structural clause is a necessary condition beyond C01/C05",
    "C12": "three-valued logic, join results and duplicate detection are value-level; the only shape clause (row-level conflict) is decided under C04",
    "C14": "column values, join fill and field-id assignment are value-level; no shape rule is a useful necessary condition",
    "C15": "offset-to-address arithmetic over arbitrary deletion vectors is value-level",
    "C16": "needs an evaluator oracle over data; plan-shape invariants are not necessary conditions of result equality",
    "C23": "tokenisation, posting lists and BM25 scores are values",
    "C25": "equality of decoded and encoded Arrow data over schemas/pages/ranges is value-level (writer/reader dispatch agreement is claimed under C26)",
    "C27": "repetition/definition level conversion is value-level structure arithmetic",
    "C28": "bit-level kernel arithmetic, macro-generated tables",
    "C29": "comparisons of data-derived min/max against literals; NaN/NULL handling is value semantics",
    "C30": "liveness and byte-exact reassembly under schedules; a lock-across-await lint is not a necessary condition",
    "C34": "sequence contents and segment choice are values",
    "C35": "floating-point kernel results",
    "C40": "array values",
    "C41": "stream contents and schedules",
}

# properties whose checks are designed (DESIGN.md) but not registered yet
PENDING = {}
# checks that exist but are held back from the manifest while a report on the unchanged tree is being triaged
HOLD = {}      # (C38 was held here until its five reports were reproduced against the real code; they are known findings now)
for _k in HOLD:
    CLAIMED.pop(_k, None)
    PENDING[_k] = HOLD[_k]


def main():
    props = [json.loads(l) for l in open(os.path.join(VERIF, "properties.jsonl"))]
    ids = [p["id"] for p in props]
    checks = []
    for pid in ids:
        if pid in CLAIMED:
            cat, tech, text, note, ref = CLAIMED[pid]
            checks.append({
                "property_id": pid,
                "quick_cmd": "./check %s --tier quick" % pid,
                "thorough_cmd": "./check %s --tier thorough" % pid,
                "evidence_file": "/verif/evidence/%s.json" % pid,
                "replay_cmd_template": "./check %s --replay {path}" % pid,
                "engine": "lens+rules",
                "level_claimed": {"category": cat, "text": text, "design_ref": ref},
                "level_note": note,
                "technique": tech,
            })
    na = []
    for pid in ids:
        if pid in CLAIMED:
            continue
        if pid in NOT_APPLICABLE:
            na.append({"property_id": pid, "reason": "static analysis not applicable: " + NOT_APPLICABLE[pid]})
        else:
            na.append({"property_id": pid, "reason": PENDING.get(
                pid, "designed in DESIGN.md section 3 but its check is not built/registered yet; not claimed")})
    m = {
        "version": 1,
        "setup_cmd": "./setup.sh",
        "hooks": {
            "guard": "lancedb_lance_verif",
            "enable": "none needed: the checks analyse the unmodified source with a rustc_private driver "
                      "(RUSTC_WRAPPER under cargo +nightly check); no hook code was added to /repo",
            "baseline_off_cmd": "cd /repo && cargo nextest run --workspace --no-fail-fast --tool-config-file "
                                "pb:/w/lib/nextest.toml --profile pb --test-threads 8 --offline",
            "source_commits": [],
            "add_only": True,
        },
        "engines": [
            {"name": "lens", "path": "/verif/lens", "serves_properties": sorted(CLAIMED),
             "kind_free_text": "rustc_private fact extractor (MIR CFG, resolved callees, ADTs, consts, format templates)"},
            {"name": "rules", "path": "/verif/rules", "serves_properties": sorted(CLAIMED),
             "kind_free_text": "python rule engine: dominance / constrained reachability / origin closure / finite "
                               "abstract interpretation over the extracted facts"},
        ],
        "checks": checks,
        "not_applicable": na,
        "notes": "Static analysis only. Every check re-extracts facts from /repo's current working tree when its "
                 "content hash changed (about 45-90 s, shared by all checks through a lock), then evaluates its rules "
                 "(seconds). Exit 3 means the tree did not build (no verdict). Known findings: /verif/known_findings.json.",
    }
    with open(os.path.join(VERIF, "MANIFEST.json"), "w") as f:
        json.dump(m, f, indent=1)
    print("MANIFEST.json: %d checks, %d not_applicable" % (len(checks), len(na)))


if __name__ == "__main__":
    main()

#!/usr/bin/env python3
"""Generate /verif/MANIFEST.json from the table below (single source of truth)."""
import json
import os

VERIF = os.path.dirname(os.path.dirname(os.path.abspath(__file__)))

TB = ("Trusted: rustc nightly front end (same source, default features; repository pins 1.90), the lens fact "
      "extractor and the python rule engine. ")

# property -> (category, technique, text, note, design_ref)
CLAIMED = {
    "C21": ("proof",
            "finite abstract interpretation of MIR + exhaustive table check",
            "The Exact/AtMost/AtLeast combination table (21 rows) is extracted from ScalarIndexExpr::evaluate's MIR by "
            "constrained reachability and each row is checked over all membership/truth assignments; the RowIdMask "
            "operators (!, &, |, normalize, also_block, also_allow, constructors, selected) are interpreted from "
            "their MIR over all (allow,block) shapes x membership bits against the set-algebra specification. "
            "All obligations are enumerated exhaustively, so for these tables the property is decided, not sampled.",
            TB + "Assumes RowIdTreeMap/RoaringBitmap |,&,-,contains,is_empty are the set operations they name; "
                 "insert_range boundaries, len, iteration and serialisation are value-level and not decided.",
            "DESIGN.md 3 C21"),
}

NOT_APPLICABLE = {
    "C11": "round-trip equality of Arrow data through writer, file splitting and scanner is a fact about run-time values; no structural clause is a necessary condition beyond C01/C05",
    "C12": "three-valued logic, join results and duplicate detection are value-level; the only shape clause (row-level conflict) is decided under C04",
    "C13": "multiset equality, row-id and version carry-over and index answers depend on row values and remap arithmetic; commit-side shape clauses are covered under C03/C24",
    "C14": "column values, join fill and field-id assignment are value-level; no shape rule is a useful necessary condition",
    "C15": "offset-to-address arithmetic over arbitrary deletion vectors is value-level",
    "C16": "needs an evaluator oracle over data; plan-shape invariants are not necessary conditions of result equality",
    "C17": "per-row version numbers are computed from run-time sequences",
    "C22": "distances and top-k over data; floating-point results",
    "C23": "tokenisation, posting lists and BM25 scores are values",
    "C25": "equality of decoded and encoded Arrow data over schemas/pages/ranges is value-level (writer/reader dispatch agreement is claimed under C26)",
    "C27": "repetition/definition level conversion is value-level structure arithmetic",
    "C28": "bit-level kernel arithmetic, macro-generated tables",
    "C29": "comparisons of data-derived min/max against literals; NaN/NULL handling is value semantics",
    "C30": "liveness and byte-exact reassembly under schedules; a lock-across-await lint is not a necessary condition",
    "C34": "sequence contents and segment choice are values",
    "C35": "floating-point kernel results",
    "C40": "array values",
    "C41": "stream contents and schedules",
    "C42": "a negative flow property (no persisted path depends on the root); the origin analysis here is sound only for positive must-come-from claims",
    "C43": "set algebra over run-time schemas",
}

# properties whose checks are designed (DESIGN.md) but not registered yet
PENDING = {}


def main():
    props = [json.loads(l) for l in open(os.path.join(VERIF, "properties.jsonl"))]
    ids = [p["id"] for p in props]
    checks = []
    for pid in ids:
        if pid in CLAIMED:
            cat, tech, text, note, ref = CLAIMED[pid]
            checks.append({
                "property_id": pid,
                "quick_cmd": "./check %s --tier quick" % pid,
                "thorough_cmd": "./check %s --tier thorough" % pid,
                "evidence_file": "/verif/evidence/%s.json" % pid,
                "replay_cmd_template": "./check %s --replay {path}" % pid,
                "engine": "lens+rules",
                "level_claimed": {"category": cat, "text": text, "design_ref": ref},
                "level_note": note,
                "technique": tech,
            })
    na = []
    for pid in ids:
        if pid in CLAIMED:
            continue
        if pid in NOT_APPLICABLE:
            na.append({"property_id": pid, "reason": "static analysis not applicable: " + NOT_APPLICABLE[pid]})
        else:
            na.append({"property_id": pid, "reason": PENDING.get(
                pid, "designed in DESIGN.md section 3 but its check is not built/registered yet; not claimed")})
    m = {
        "version": 1,
        "setup_cmd": "./setup.sh",
        "hooks": {
            "guard": "lancedb_lance_verif",
            "enable": "none needed: the checks analyse the unmodified source with a rustc_private driver "
                      "(RUSTC_WRAPPER under cargo +nightly check); no hook code was added to /repo",
            "baseline_off_cmd": "cd /repo && cargo nextest run --workspace --no-fail-fast --tool-config-file "
                                "pb:/w/lib/nextest.toml --profile pb --test-threads 8 --offline",
            "source_commits": [],
            "add_only": True,
        },
        "engines": [
            {"name": "lens", "path": "/verif/lens", "serves_properties": sorted(CLAIMED),
             "kind_free_text": "rustc_private fact extractor (MIR CFG, resolved callees, ADTs, consts, format templates)"},
            {"name": "rules", "path": "/verif/rules", "serves_properties": sorted(CLAIMED),
             "kind_free_text": "python rule engine: dominance / constrained reachability / origin closure / finite "
                               "abstract interpretation over the extracted facts"},
        ],
        "checks": checks,
        "not_applicable": na,
        "notes": "Static analysis only. Every check re-extracts facts from /repo's current working tree when its "
                 "content hash changed (about 45-90 s, shared by all checks through a lock), then evaluates its rules "
                 "(seconds). Exit 3 means the tree did not build (no verdict). Known findings: /verif/known_findings.json.",
    }
    with open(os.path.join(VERIF, "MANIFEST.json"), "w") as f:
        json.dump(m, f, indent=1)
    print("MANIFEST.json: %d checks, %d not_applicable" % (len(checks), len(na)))


if __name__ == "__main__":
    main()

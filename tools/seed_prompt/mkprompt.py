"""The prompt given to a seeding sub-agent: the property text and a scratch worktree, nothing from /verif.
   python3 tools/seed_prompt/mkprompt.py <property id> <tag> "<what an earlier seed did, to avoid>"
"""
import json, os, sys
pid, tag, avoid = sys.argv[1], sys.argv[2], sys.argv[3]
p = [json.loads(l) for l in open('/verif/properties.jsonl') if json.loads(l)['id'] == pid][0]
tail = open(os.path.join(os.path.dirname(os.path.abspath(__file__)), 'tail.txt')).read().replace('seed-XX', 'seed-' + tag)
print(f"""You are helping to evaluate a verification effort for the Rust project lancedb/lance (a columnar table format). Your job is to play a careless-but-plausible maintainer: produce ONE small source change to the project that BREAKS the semantic property stated below, while the project still compiles and its existing tests still pass - the kind of change that could slip through code review (a refactor, an "optimisation", a tidy-up, a copy-paste slip), not sabotage that is obvious at a glance, and not a change to tests.

Property {p['id']}: {p['title']}
Statement: {p['statement']}
Quantified over: {p['quantifier']['text']}
Relevant files (starting points only; the change may be anywhere in rust/): {', '.join(p['anchors']['files'])}

An earlier change of this kind already exists for this property: {avoid}. Pick a DIFFERENT place and a different mechanism.

Work ONLY in a scratch git worktree: create it with `git -C /repo worktree add --detach /tmp/seed-{tag} HEAD` and make all edits there. Never edit, build in, or commit to /repo itself, and do not look at or use anything under /verif. Do not commit anything.

Deliverables, all inside /tmp/seed-{tag}:
  1. patch.diff  - `git diff` of the source change alone (no tests in it), applying cleanly to /repo HEAD with `git apply`.
  2. demo.diff   - a separate `git diff` that adds ONE new test (in an existing test module, or a new file under the crate's tests/) which passes on the unchanged code and FAILS with patch.diff applied, showing the property broken by a concrete input / history. demo.diff must apply on top of HEAD both with and without patch.diff.
  3. You must actually build and run: the demo fails with the patch and passes without it, and the existing tests of the module(s) you touched still pass with the patch (run them filtered).
In your final message report: the file/function changed and why it looks innocent, the concrete failing input or history, the crate / test-binary selector (e.g. `-p lance --lib`), a test-name filter that selects the neighbouring existing tests, and the exact name of the demo test, plus the with/without results you observed. If, while reading, you notice something in the unchanged code that already looks like a genuine violation of the property, mention it separately at the end (one paragraph, with the input that would fail).

{tail}""")

#!/bin/bash
# Confirm a seeded change in its scratch worktree: the demonstration test fails with patch.diff applied and passes
# without it, and the neighbouring existing tests pass both ways.
#   tools/confirm_seed.sh <worktree> <package> <test-filter> <demo-test-name> [extra cargo args]
# The worktree must contain patch.diff and demo.diff.  The build directory (/repo/target) is shared between worktrees and
# cargo names the test binary identically for all of them, so every workspace source of the worktree is touched before
# each build and the log is checked for "Compiling <package> ... (<worktree>/...)" and for the demo test's name.
set -u
WT=$1; PKG=$2; FILTER=$3; DEMO=$4; shift 4
export CARGO_NET_OFFLINE=true CARGO_TARGET_DIR=${CARGO_TARGET_DIR:-/repo/target} RUST_BACKTRACE=0
cd "$WT" || exit 2
git checkout -q -- . 2>/dev/null
run() {   # label
  find rust protos -name '*.rs' -o -name '*.proto' | xargs touch
  cargo test --offline -p "$PKG" --lib "$@" -- "$FILTER" > "$WT/confirm_$LABEL.log" 2>&1
  grep -q "Compiling $PKG v.*($WT" "$WT/confirm_$LABEL.log" || { echo "[$LABEL] NOT BUILT FROM $WT"; return 2; }
  grep -E "^test .*$DEMO|^test result" "$WT/confirm_$LABEL.log"
}
git apply patch.diff && git apply demo.diff || { echo "patch/demo did not apply"; exit 2; }
LABEL=with; echo "== with the change"; run "$@"
git apply -R patch.diff || exit 2
LABEL=without; echo "== without the change"; run "$@"
git apply -R demo.diff
git status --short | grep -v '^??' && echo "worktree not clean" || echo "worktree back to HEAD"

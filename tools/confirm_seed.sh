#!/bin/bash
# Confirm a seeded change (or a defect reproduction) in its scratch worktree: the demonstration test fails with patch.diff
# applied and passes without it, and the neighbouring existing tests pass both ways.
#   tools/confirm_seed.sh <worktree> <package> <crate-dir> <target-selector> <test-filter> <demo-test-name>
#     e.g. tools/confirm_seed.sh /tmp/seed-c10 lance rust/lance --lib io::commit::external_manifest test_failed_flip
#          tools/confirm_seed.sh /tmp/seed-c02 lance-table rust/lance-table "--test commit_lock_race" lock_handler lock_handler
# The worktree must contain patch.diff and demo.diff.  The build directory (/repo/target) is shared between worktrees and
# cargo names the test binary identically for all of them, so: every workspace source of the worktree is touched before
# each build, the build is --no-run with JSON messages, the test executable must be reported as not fresh and compiled from
# this worktree, it is copied aside at once and the COPY is run; the demo test must appear in its output.
set -u
WT=$1; PKG=$2; DIR=$3; SEL=$4; FILTER=$5; DEMO=$6
export CARGO_NET_OFFLINE=true RUST_BACKTRACE=0
cd "$WT" || exit 2
mkdir -p "$WT/bins"
if [ "${OVERLAY:-1}" = 1 ] && [ -z "${CARGO_TARGET_DIR:-}" ]; then
  # private build directory sharing /repo/target read-only: nothing is copied, only the workspace crates are rebuilt (from
  # this worktree), and /repo/target itself is never written, so concurrent jobs cannot hand each other stale binaries
  mkdir -p "$WT/ovl/upper" "$WT/ovl/work" "$WT/target"
  mountpoint -q "$WT/target" || mount -t overlay overlay -o "lowerdir=/repo/target,upperdir=$WT/ovl/upper,workdir=$WT/ovl/work" "$WT/target" || exit 2
  rm -rf "$WT/target/debug/incremental" "$WT"/target/debug/deps/lance* "$WT"/target/debug/deps/liblance* "$WT/target/debug/examples"
  export CARGO_TARGET_DIR="$WT/target"
  trap 'cd /; umount "$WT/target" 2>/dev/null; rm -rf "$WT/ovl" "$WT/target"' EXIT
else
  export CARGO_TARGET_DIR=${CARGO_TARGET_DIR:-/repo/target}
fi
git checkout -q -- . 2>/dev/null
build_run() {   # label
  local label=$1 tries=0 exe=""
  while [ $tries -lt 3 ]; do
    tries=$((tries+1))
    find rust protos \( -name '*.rs' -o -name '*.proto' \) -print0 | xargs -0 touch
    cargo test --offline -p "$PKG" $SEL --no-run --message-format=json 2> "$WT/confirm_$label.build.log" > "$WT/confirm_$label.json"
    exe=$(python3 - "$WT" "$WT/confirm_$label.json" <<'PY'
import json, sys
wt, path = sys.argv[1], sys.argv[2]
best = ""
for l in open(path):
    try:
        m = json.loads(l)
    except Exception:
        continue
    if m.get("reason") == "compiler-artifact" and m.get("executable") and m.get("profile", {}).get("test"):
        if m["target"]["src_path"].startswith(wt + "/") and not m.get("fresh", True):
            best = m["executable"]
print(best)
PY
)
    if [ -n "$exe" ] && [ -x "$exe" ]; then cp "$exe" "$WT/bins/$label"; break; fi
    exe=""; sleep 5
  done
  if [ -z "$exe" ]; then echo "[$label] could not obtain a test binary compiled from $WT"; return 2; fi
  ( cd "$WT/$DIR" && "$WT/bins/$label" "$FILTER" > "$WT/confirm_$label.log" 2>&1 )
  if ! grep -q "$DEMO" "$WT/confirm_$label.log"; then echo "[$label] demo test not in the binary"; return 2; fi
  grep -E "^test .*$DEMO|^test result" "$WT/confirm_$label.log"
  rm -f "$WT/bins/$label"
}
if [ "${FIXMODE:-0}" = 1 ]; then
  # defect reproduction: HEAD has the defect; fix.diff repairs it.  The demo must fail before and pass after.
  git apply demo.diff || { echo "demo did not apply"; exit 2; }
  echo "== before the fix (HEAD)"; build_run before
  git apply fix.diff || exit 2
  echo "== after the fix"; build_run after
  git checkout -q -- .
  exit 0
fi
git apply patch.diff && git apply demo.diff || { echo "patch/demo did not apply"; exit 2; }
echo "== with the change"; build_run with
git apply -R patch.diff || exit 2
echo "== without the change"; build_run without
git apply -R demo.diff
git status --short | grep -v '^??' && echo "worktree not clean" || echo "worktree back to HEAD"

#!/usr/bin/env python3
"""Keep an independently seeded change under /verif/seeded/<name>/ once it has been confirmed.

  tools/keep_seed.py <name> <worktree> <property> <expect-key> <caught-by> "<summary>"

Copies patch.diff, demo.diff and the confirmation logs written by tools/confirm_seed.sh (confirm_with.log /
confirm_without.log) from the scratch worktree, and writes meta.json:
  property, patch, demo, expect_key (substring of the violation line the check must print), caught_by
  ("as-built" = the check reported it before seeing the change, "strengthened" = it was missed and a rule was added),
  confirmation (the `test result` lines with and without the change), summary.
"""
import json
import os
import re
import shutil
import sys

VERIF = os.path.dirname(os.path.dirname(os.path.abspath(__file__)))


def result_lines(path, demo):
    if not os.path.exists(path):
        return None
    out = []
    for l in open(path, errors="replace"):
        if l.startswith("test result") or (demo and demo in l and l.startswith("test ")):
            out.append(l.strip())
    return out


def main():
    name, wt, prop, expect, caught, summary = sys.argv[1:7]
    demo = sys.argv[7] if len(sys.argv) > 7 else ""
    d = os.path.join(VERIF, "seeded", name)
    os.makedirs(d, exist_ok=True)
    for f in ("patch.diff", "demo.diff"):
        shutil.copy(os.path.join(wt, f), os.path.join(d, f))
    conf = {}
    for label in ("with", "without"):
        src = os.path.join(wt, "confirm_%s.log" % label)
        if os.path.exists(src):
            txt = open(src, errors="replace").read()
            # keep the tail: the test list and the failure message
            open(os.path.join(d, "confirm_%s.log" % label), "w").write(txt[-6000:])
            conf[label] = result_lines(src, demo)
    ok = bool(conf.get("with")) and bool(conf.get("without")) and any("FAILED" in x or "failed" in x for x in conf["with"]) and \
        all("FAILED" not in x for x in conf["without"])
    meta = {"property": prop, "patch": "patch.diff", "demo": "demo.diff", "expect_key": expect, "caught_by": caught,
            "status": "not-decided" if caught == "not-decided" else "caught",
            "demo_test": demo, "confirmed": ok, "confirmation": conf, "summary": summary,
            "origin": "sub-agent given only the property text and a scratch worktree"}
    json.dump(meta, open(os.path.join(d, "meta.json"), "w"), indent=1)
    print("%s: confirmed=%s" % (name, ok))
    return 0 if ok else 1


if __name__ == "__main__":
    sys.exit(main())

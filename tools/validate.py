#!/usr/bin/env python3
"""Validate MANIFEST.json and evidence files against the schemas (python3-vt has jsonschema)."""
import json, os, subprocess, sys
V = os.path.dirname(os.path.dirname(os.path.abspath(__file__)))
code = r'''
import json,sys,glob,jsonschema
ms=json.load(open("/root/.vp/MANIFEST.schema.json")); es=json.load(open("/root/.vp/EVIDENCE.schema.json"))
m=json.load(open("%s/MANIFEST.json"))
jsonschema.validate(m,ms)
bad=0
for f in sorted(glob.glob("%s/evidence/*.json")):
    try: jsonschema.validate(json.load(open(f)),es)
    except Exception as e:
        bad+=1; print("INVALID",f,str(e)[:300])
print("manifest ok; evidence files checked, invalid:",bad)
sys.exit(1 if bad else 0)
''' % (V, V)
sys.exit(subprocess.run(["python3-vt", "-c", code]).returncode)

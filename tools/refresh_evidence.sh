#!/bin/bash
# Re-run every registered quick check on /repo's current (clean) tree so that the committed evidence files describe the
# unchanged tree (runs against seeded trees overwrite evidence/<id>.json), then validate manifest and evidence.
cd "$(dirname "$0")/.." || exit 2
if [ -n "$(git -C /repo status --short | grep -v '^??')" ]; then echo "/repo has uncommitted changes: refusing"; exit 2; fi
bad=0
for p in $(python3 -c "import json;print(' '.join(c['property_id'] for c in json.load(open('MANIFEST.json'))['checks']))"); do
  out=$(./check "$p" 2>&1 | tail -1); echo "$out"
  case "$out" in *"new_violations=0"*) ;; *) bad=1;; esac
done
python3 tools/validate.py | tail -1
exit $bad

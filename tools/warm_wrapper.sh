#!/bin/bash
# RUSTC_WRAPPER used only to warm the nightly dependency cache: redirects ethnum's lib.rs to the vendored copy.
args=()
for a in "$@"; do
  case "$a" in
    */ethnum-1.5.2/src/lib.rs) args+=("/verif/vendor/ethnum-1.5.2/src/lib.rs");;
    *) args+=("$a");;
  esac
done
exec "${args[@]}"

"""Hand-written mutants for the checker self-tests (tools/selftest.py).  Each breaks one rule instance, compiles, and
names the violation key the check must report.  They are applied to a scratch worktree only."""

TC = "rust/lance-table/src/io/commit.rs"
LC = "rust/lance/src/io/commit.rs"
CR = "rust/lance/src/io/commit/conflict_resolver.rs"
EM = "rust/lance-table/src/io/commit/external_manifest.rs"
TX = "rust/lance/src/dataset/transaction.rs"
MK = "rust/lance-core/src/utils/mask.rs"
FF = "rust/lance-table/src/feature_flags.rs"
MW = "rust/lance/src/index/mem_wal.rs"
OPT = "rust/lance/src/dataset/optimize.rs"
FIELD = "rust/lance-core/src/datatypes/field.rs"
PF = "rust/lance/src/index/prefilter.rs"
EX = "rust/lance-index/src/scalar/expression.rs"

MUTANTS = [
    # ------------------------------------------------------------------ C02
    dict(name="c02_put_overwrite", prop="C02", file=TC, what="conditional put without PutMode::Create",
         old="mode: object_store::PutMode::Create,", new="mode: object_store::PutMode::Overwrite,",
         expect="put_opts-mode-create"),
    dict(name="c02_lock_leak_on_exists", prop="C02", file=TC, what="lease not released when the version already exists",
         old="""                // Release the lock
                lease.release(false).await?;

                return Err(CommitError::CommitConflict);""",
         new="""                return Err(CommitError::CommitConflict);""",
         expect="lease-released-on-all-exits"),
    dict(name="c02_rename_writes_final", prop="C02", file=TC, what="rename handler writes straight to the final path",
         old="manifest_writer(object_store, manifest, indices, &tmp_path, transaction).await?;",
         new="manifest_writer(object_store, manifest, indices, &path, transaction).await?;",
         expect="writer-path-staging"),
    dict(name="c02_lock_any_error_is_notfound", prop="C02", file=TC, what="head errors other than NotFound fall through to the write",
         old="""            Err(e) => {
                // Something else went wrong
                // Release the lock
                lease.release(false).await?;

                return Err(CommitError::OtherError(e.into()));
            }
        }
        let res = manifest_writer(""",
         new="""            Err(_e) => {}
        }
        let res = manifest_writer(""",
         expect="writer-only-on-NotFound"),
    dict(name="c02_memory_unsafe", prop="C02", file=TC, what="memory:// silently gets the unsafe handler",
         old="""        "s3" | "gs" | "az" | "memory" => Ok(Arc::new(ConditionalPutCommitHandler)),""",
         new="""        "s3" | "gs" | "az" => Ok(Arc::new(ConditionalPutCommitHandler)),
        "memory" => Ok(Arc::new(UnsafeCommitHandler)),""",
         expect="scheme:memory"),
    dict(name="c02_precondition_not_conflict", prop="C02", file=TC, what="Precondition failure no longer a commit conflict",
         old="ObjectStoreError::AlreadyExists { .. } | ObjectStoreError::Precondition { .. } => {",
         new="ObjectStoreError::AlreadyExists { .. } => {",
         expect="err-map:Precondition"),
    # ------------------------------------------------------------------ C03
    dict(name="c03_delete_vs_merge_ok", prop="C03", file=CR, what="Delete committing after a concurrent Merge made compatible",
         old="""                Operation::Merge { .. } => {
                    Err(self.retryable_conflict_err(other_transaction, other_version, location!()))
                }""",
         new="""                Operation::Merge { .. } => Ok(()),""",
         expect="must-conflict:Delete/Merge"),
    dict(name="c03_conflict_swallowed", prop="C03", file=LC, what="check_txn result ignored",
         old="rebase.check_txn(other_transaction, *other_version)?;",
         new="let _ = rebase.check_txn(other_transaction, *other_version);",
         expect="conflict-propagates"),
    dict(name="c03_stale_manifest", prop="C03", file=LC, what="manifest rebuilt against the original (stale) dataset", occ=1,
         old="Some(dataset.manifest.as_ref()),", new="Some(original_dataset.manifest.as_ref()),",
         expect="build_manifest-current<-reloaded"),
    dict(name="c03_delete_ignores_own_footprint", prop="C03", file=CR, what="Delete vs Rewrite no longer consults modified_fragment_ids",
         old=".any(|id| self.modified_fragment_ids.contains(&id))", new=".any(|id| id == u64::MAX)",
         expect="must-depend:Delete/Rewrite"),
    # ------------------------------------------------------------------ C04
    dict(name="c04_no_overlap_test", prop="C04", file=CR, what="row overlap never reported",
         old="if conflicting_rows.len().map(|v| v > 0).unwrap_or(true) {", new="if false {",
         expect="overlap=>retry-no-write"),
    dict(name="c04_union_one_side", prop="C04", file=CR, what="rewritten deletion vector forgets existing deletions",
         old="let merged = existing_deletions.clone() | affected_rows.clone();", new="let merged = affected_rows.clone();",
         expect="union"),
    dict(name="c04_update_forgets_rows", prop="C04", file="rust/lance/src/dataset/write/update.rs", what="update stops passing affected rows",
         old="            .with_affected_rows(update_data.affected_rows)\n", new="",
         expect="producer:update.rs"),
    # ------------------------------------------------------------------ C07
    dict(name="c07_restore_lowers_mark", prop="C07", file=LC, what="restore republishes the old next_row_id", occ=1,
         old="                manifest.next_row_id = manifest.next_row_id.max(dataset.manifest.next_row_id);\n", new="",
         expect="restore-keeps-high-water-mark:commit_transaction"),
    dict(name="c07_restore_edits_other_field", prop="C07", file=LC, what="restore silently edits another manifest field", occ=1,
         old="                manifest.next_row_id = manifest.next_row_id.max(dataset.manifest.next_row_id);\n",
         new="                manifest.next_row_id = manifest.next_row_id.max(dataset.manifest.next_row_id);\n                manifest.max_fragment_id = None;\n",
         expect="arm-writes:commit_transaction"),
    # ------------------------------------------------------------------ C10
    dict(name="c10_flip_without_copy", prop="C10", file=EM, what="external store flipped although the copy did not happen",
         old="""        if !copied {
            return Ok(location);
        }
""", new="", expect="!copied=>no-flip"),
    dict(name="c10_conflict_keeps_staging", prop="C10", file=EM, what="staging object leaked on a lost race",
         old="""            match object_store.inner.delete(&staging_path).await {
                Ok(_) => {}
                Err(ObjectStoreError::NotFound { .. }) => {}
                Err(e) => return Err(CommitError::OtherError(e.into())),
            }
""", new="", expect="conflict=>delete-staging"),
    dict(name="c10_register_final_path", prop="C10", file=EM, what="put_if_not_exists registers the final path before it exists",
         old="                staging_path.as_ref(),\n                write_res.size as u64,", new="                path.as_ref(),\n                write_res.size as u64,",
         expect="put-args"),
    # ------------------------------------------------------------------ C18
    dict(name="c18_counter_not_advanced", prop="C18", file=TX, what="fresh range taken but counter not advanced",
         old="                fragment.row_id_meta = Some(RowIdMeta::Inline(serialized));\n                *next_row_id += physical_rows;",
         new="                fragment.row_id_meta = Some(RowIdMeta::Inline(serialized));",
         expect="advance"),
    dict(name="c18_counter_restarts", prop="C18", file=TX, what="counter restarts from 0 on an existing table",
         old="                    Some(manifest.next_row_id)\n", new="                    Some(manifest.next_row_id.min(0))\n",
         expect="init-"),
    # ------------------------------------------------------------------ C21
    dict(name="c21_and_atleast_atmost_exact", prop="C21", file="rust/lance-index/src/scalar/expression.rs",
         what="AtLeast AND AtMost reported as Exact",
         old="""                    (IndexExprResult::AtLeast(_), IndexExprResult::AtMost(rhs)) => {
                        Ok(IndexExprResult::AtMost(rhs))""",
         new="""                    (IndexExprResult::AtLeast(_), IndexExprResult::AtMost(rhs)) => {
                        Ok(IndexExprResult::Exact(rhs))""",
         expect="And(AtLeast,AtMost)"),
    dict(name="c21_mask_and_unions_allow", prop="C21", file=MK, what="mask & unions the allow lists",
         old="            (Some(lhs), Some(rhs)) => Some(lhs & rhs),", new="            (Some(lhs), Some(rhs)) => Some(lhs | rhs),",
         expect="bitand(Some"),
    # ------------------------------------------------------------------ C24
    dict(name="c24_no_prune", prop="C24", file=TX, what="rewritten fragments stay in covering index bitmaps",
         old="""                Self::prune_updated_fields_from_indices(
                    &mut final_indices,
                    updated_fragments,
                    fields_modified,
                );""",
         new="""                let _ = fields_modified;""",
         expect="prune"),
    # ------------------------------------------------------------------ C33
    dict(name="c33_width_19", prop="C33", file=TC, what="V2 names padded to 19 digits",
         old="{inverted_version:020}", new="{inverted_version:019}", expect="v2-width"),
    dict(name="c33_local_latest_is_min", prop="C33", file=TC, what="local discovery keeps the smallest version",
         old="            if version > *latest_version {", new="            if version < *latest_version {",
         expect="local-replace-only-if-greater"),
    dict(name="c33_prefix_digit", prop="C33", file=TC, what="detached prefix becomes a digit",
         old='const DETACHED_VERSION_PREFIX: &str = "d";', new='const DETACHED_VERSION_PREFIX: &str = "0";',
         expect="prefix-not-digit"),
    # ------------------------------------------------------------------ C37
    dict(name="c37_read_le", prop="C37", file=FF, what="reader accepts the first unknown bit",
         old="reader_flags < FLAG_UNKNOWN", new="reader_flags <= FLAG_UNKNOWN", expect="predicate:can_read_dataset"),
    dict(name="c37_base_paths_not_reader", prop="C37", file=FF, what="base-path tables readable by readers that ignore base paths",
         old="        manifest.reader_feature_flags |= FLAG_BASE_PATHS;\n", new="", expect="reader-has:FLAG_BASE_PATHS"),
    dict(name="c37_next_alias", prop="C37", file="rust/lance-encoding/src/version.rs", what="`next` resolves to 2.2",
         old="            Self::Next => Self::V2_1,", new="            Self::Next => Self::V2_2,", expect="alias:Next"),
    dict(name="c37_flag_collision", prop="C37", file=FF, what="two flags share a bit",
         old="pub const FLAG_TABLE_CONFIG: u64 = 8;", new="pub const FLAG_TABLE_CONFIG: u64 = 16;", expect="distinct"),
    dict(name="c37_writer_gate_removed", prop="C37", file=LC, what="commit funnel stops checking writer flags",
         old="        check_writer_feature_flags(&dataset.manifest)?;\n", new="", expect="gate-present:commit_transaction"),
    # ------------------------------------------------------------------ C39
    dict(name="c39_flush_open", prop="C39", file=MW, what="an open generation can be marked flushed",
         old="""        // Can only flush sealed MemWALs
        mem_wal.check_state(lance_index::mem_wal::State::Sealed)?;""",
         new="""        // Can only flush sealed MemWALs
        mem_wal.check_state(lance_index::mem_wal::State::Open)?;""",
         expect="mark_mem_wal_as_flushed"),
    dict(name="c39_trim_flushed", prop="C39", file=MW, what="trim removes flushed (not merged) generations",
         old="                if mem_wal.state == lance_index::mem_wal::State::Merged {",
         new="                if mem_wal.state == lance_index::mem_wal::State::Flushed {",
         expect="only-merged-trimmed"),
    dict(name="c39_memwal_vs_memwal_ok", prop="C39", file=CR, what="two changes of the same generation both commit",
         old="""                    // 2. MemWALs of different regions can be changed at the same time
                    self.check_update_mem_wal_state_not_modify_same_mem_wal(
                        committed_added,
                        added,
                        other_transaction,
                        other_version,
                    )?;
                    self.check_update_mem_wal_state_not_modify_same_mem_wal(
                        committed_added,
                        updated,
                        other_transaction,
                        other_version,
                    )?;
                    self.check_update_mem_wal_state_not_modify_same_mem_wal(
                        committed_updated,
                        added,
                        other_transaction,
                        other_version,
                    )?;
                    self.check_update_mem_wal_state_not_modify_same_mem_wal(
                        committed_updated,
                        updated,
                        other_transaction,
                        other_version,
                    )?;
                    Ok(())""",
         new="""                    Ok(())""",
         expect="must-depend:UpdateMemWalState/UpdateMemWalState"),
    # ------------------------------------------------------------------ C01
    dict(name="c01_version_from_read_version", prop="C01", file=LC, what="published number computed from the read version, not the latest",
         old="        target_version = dataset.manifest.version + 1;", new="        target_version = read_version + 1;",
         expect="target=latest+1"),
    dict(name="c01_detached_check_dropped", prop="C01", file=LC, what="detached-range numbers no longer refused",
         old="        if is_detached_version(target_version) {", new="        if false && is_detached_version(target_version) {",
         expect="refuses-detached-range"),
    dict(name="c01_second_publisher", prop="C01", file="rust/lance/src/dataset/optimize.rs", what="a second caller of the publication funnel",
         old="pub async fn plan_compaction(", new="""#[allow(dead_code)]
pub(crate) async fn publish_directly(
    dataset: &Dataset,
    manifest: &mut lance_table::format::Manifest,
) -> Result<()> {
    crate::dataset::write_manifest_file(
        dataset.object_store(),
        dataset.commit_handler.as_ref(),
        &dataset.base,
        manifest,
        None,
        &Default::default(),
        dataset.manifest_location.naming_scheme,
        None,
    )
    .await
    .map_err(|_| Error::Internal {
        message: "x".into(),
        location: location!(),
    })?;
    Ok(())
}

pub async fn plan_compaction(""", expect="write_manifest_file<-"),
    dict(name="c01_write_after_publish", prop="C01", file=LC, what="a transaction file is (re)written after the manifest was published",
         old="                if !indices.is_empty() {\n                    let key = IndexMetadataKey {",
         new="                let _ = write_transaction_file(object_store, &dataset.base, &transaction).await;\n                if !indices.is_empty() {\n                    let key = IndexMetadataKey {",
         expect="nothing-after-publish:commit_transaction"),
    # ------------------------------------------------------------------ C05
    dict(name="c05_no_sort", prop="C05", file=TX, what="fragments no longer sorted by id",
         old="        final_fragments.sort_by_key(|frag| frag.id);\n", new="", expect="sort-by-id"),
    dict(name="c05_flags_not_recomputed", prop="C05", file="rust/lance/src/dataset.rs", what="feature flags not recomputed before publication",
         old="""    if config.auto_set_feature_flags {
        apply_feature_flags(
            manifest,
            config.use_stable_row_ids,
            config.disable_transaction_file,
        )?;
    }

    manifest.set_timestamp(timestamp_to_nanos(config.timestamp));

    manifest.update_max_fragment_id();""",
         new="""    manifest.set_timestamp(timestamp_to_nanos(config.timestamp));

    manifest.update_max_fragment_id();""", expect="flags<commit"),
    dict(name="c05_merge_keeps_stale_indices", prop="C05", file=TX, what="Merge no longer drops indices of removed fields",
         old="""                final_fragments.extend(fragments.clone());

                // Some fields that have indices may have been removed, so we should
                // remove those indices as well.
                Self::retain_relevant_indices(&mut final_indices, &schema, &final_fragments)""",
         new="""                final_fragments.extend(fragments.clone());""", expect="retain:Merge"),
    # ------------------------------------------------------------------ C06
    dict(name="c06_deterministic_deletion_id", prop="C06", file="rust/lance-table/src/io/deletion.rs", what="deletion file ids become deterministic",
         old="            let id = rand::rng().random::<u64>();", new="            let id = fragment_id;", expect="deletion-id-random"),
    dict(name="c06_new_mutator", prop="C06", file="rust/lance/src/dataset/optimize.rs", what="a new code path deletes data files",
         old="pub async fn plan_compaction(", new="""#[allow(dead_code)]
pub(crate) async fn drop_old_file(dataset: &Dataset, path: &object_store::path::Path) -> Result<()> {
    dataset.object_store().delete(path).await
}

pub async fn plan_compaction(""", expect="mutator:dataset::optimize::drop_old_file"),
    # ------------------------------------------------------------------ C08
    dict(name="c08_ignore_tags", prop="C08", file="rust/lance/src/dataset/cleanup.rs", what="tagged versions no longer protected",
         old="        let in_working_set = is_latest || !self.policy.should_clean(&manifest) || is_tagged;",
         new="        let in_working_set = is_latest || !self.policy.should_clean(&manifest);",
         expect="is_tagged=True"),
    dict(name="c08_inverted_contains", prop="C08", file="rust/lance/src/dataset/cleanup.rs", what="referenced deletion files are the ones removed",
         old="""                    if inspection
                        .referenced_files
                        .delete_paths
                        .contains(&relative_path)
                    {
                        Ok(None)""",
         new="""                    if !inspection
                        .referenced_files
                        .delete_paths
                        .contains(&relative_path)
                    {
                        Ok(None)""", expect="class=deletions"),
    dict(name="c08_no_age_guard", prop="C08", file="rust/lance/src/dataset/cleanup.rs", what="recent unverified files deleted",
         old="""                let maybe_in_progress = !self.policy.delete_unverified
                    && obj_meta.last_modified >= verification_threshold;""",
         new="""                let maybe_in_progress = !self.policy.delete_unverified
                    && obj_meta.last_modified < verification_threshold;""", expect="maybe_in_progress"),
    dict(name="c08_manifest_read_error_skipped", prop="C08", file="rust/lance/src/dataset/cleanup.rs", what="unreadable manifests are skipped",
         old="""        let manifest =
            read_manifest(&self.dataset.object_store, &location.path, location.size).await?;""",
         new="""        let Ok(manifest) =
            read_manifest(&self.dataset.object_store, &location.path, location.size).await
        else {
            return Ok(());
        };""", expect="manifest-read-error-propagates"),
    # ------------------------------------------------------------------ C09
    dict(name="c09_tag_delete_unvalidated", prop="C09", file="rust/lance/src/dataset/refs.rs", what="Tags::delete forgets its validator",
         old="""    pub async fn delete(&self, tag: &str) -> Result<()> {
        check_valid_tag(tag)?;
""", new="""    pub async fn delete(&self, tag: &str) -> Result<()> {
""", expect="Tags::delete"),
    dict(name="c09_tag_wrong_version", prop="C09", file="rust/lance/src/dataset/refs.rs", what="tag records the resolved manifest's version instead of the requested one",
         old="""        let tag_contents = TagContents {
            branch,
            version: version_number,
            manifest_size,
        };

        self.object_store()
            .put(
                &tag_file,
                serde_json::to_string_pretty(&tag_contents)?.as_bytes(),
            )
            .await
            .map(|_| ())
    }

    pub async fn delete""",
         new="""        let tag_contents = TagContents {
            branch,
            version: manifest_file.version,
            manifest_size,
        };

        self.object_store()
            .put(
                &tag_file,
                serde_json::to_string_pretty(&tag_contents)?.as_bytes(),
            )
            .await
            .map(|_| ())
    }

    pub async fn delete""", expect="create_on_branch:version-field"),
    dict(name="c09_slash_in_tag", prop="C09", file="rust/lance/src/dataset/refs.rs", what="tags may contain '/'",
         old="""        .all(|c| c.is_alphanumeric() || c == '.' || c == '-' || c == '_')
    {
        return Err(Error::InvalidRef {
            message: "Ref characters must be""",
         new="""        .all(|c| c.is_alphanumeric() || c == '.' || c == '-' || c == '_' || c == '/')
    {
        return Err(Error::InvalidRef {
            message: "Ref characters must be""", expect="check_valid_tag('a/b')"),
    # ------------------------------------------------------------------ C19 / C20
    dict(name="c19_negate_inexact", prop="C19", file="rust/lance-index/src/scalar/expression.rs", what="inexact results can be negated",
         old="""                if scalar_query.needs_recheck() {
                    return None;
                }
""", new="", expect="maybe_not:sq=inexact"),
    dict(name="c19_null_guard_dropped", prop="C19", file="rust/lance-index/src/scalar/expression.rs", what="= NULL reaches the index",
         old="""        if value.is_null() {
            return None;
        }
        let query = match op {""", new="""        let query = match op {""", expect="visit_comparison"),
    dict(name="c20_zonemap_exact", prop="C20", file="rust/lance-index/src/scalar/zonemap.rs", what="zone map claims an exact answer",
         old="        Ok(SearchResult::AtMost(row_id_tree_map))", new="        Ok(SearchResult::Exact(row_id_tree_map))", expect="zonemap.rs:Exact"),
    dict(name="c20_bloom_no_recheck", prop="C20", file="rust/lance-index/src/scalar/bloomfilter.rs", what="bloom filter parser built without recheck",
         old="BloomFilterQueryParser::new(index_name, true)", new="BloomFilterQueryParser::new(index_name, false)", expect="bloomfilter.rs"),
    dict(name="c20_atleast_restricted", prop="C20", file="rust/lance/src/io/exec/filtered_read.rs", what="AtLeast results read only the guaranteed rows again",
         old="                        fragments_to_read.insert(fragment_id, to_read);\n\n                        Self::apply_skip_take_to_ranges(&mut guaranteed_ranges",
         new="                        fragments_to_read.insert(fragment_id, guaranteed_ranges.clone());\n\n                        Self::apply_skip_take_to_ranges(&mut guaranteed_ranges",
         expect="AtLeast-reads-all-candidates"),
    # ------------------------------------------------------------------ C26 / C31 / C32
    dict(name="c26_rle_decoder_arm_removed", prop="C26", file="rust/lance-encoding/src/compression.rs", what="miniblock RLE no longer decodable",
         old="            Compression::Rle(rle) => {", new="            Compression::Rle(rle) if false => {", expect="Rle"),
    dict(name="c31_complete_from_flush", prop="C31", file="rust/lance-io/src/object_writer.rs", what="flush completes the upload",
         old="            UploadState::Started(_) | UploadState::Done(_) => Poll::Ready(Ok(())),\n            UploadState::CreatingUpload(_)",
         new="            UploadState::Started(_) | UploadState::Done(_) => Poll::Ready(Ok(())),\n            UploadState::InProgress { .. } if false => {\n                self.state.in_progress_to_completing();\n                Poll::Pending\n            }\n            UploadState::CreatingUpload(_)",
         expect="helper-callers:in_progress_to_completing"),
    dict(name="c32_fragment_field_dropped", prop="C32", file="rust/lance-table/src/format/fragment.rs", what="physical_rows no longer serialised",
         old="            physical_rows: f.physical_rows.unwrap_or_default() as u64,", new="            physical_rows: 0,",
         expect="physical_rows"),
    dict(name="c32_update_mode_dropped", prop="C32", file=TX, what="Update.fields_modified bound to _ in the encoder",
         old="                fields_modified: fields_modified.clone(),",
         new="                fields_modified: Vec::new(),", expect="Update.fields_modified"),
    dict(name="c01_unfinished_file_named", prop="C01", file="rust/lance/src/dataset/write.rs", what="a failed file finish still yields a data-file descriptor",
         old="        let num_rows = self.writer.finish().await? as u32;",
         new="        let num_rows = self.writer.finish().await.unwrap_or(0) as u32;",
         expect="DOM-data-closed|V2WriterAdapter"),
    dict(name="c17_stamp_from_read_version", prop="C17", file=TX, what="appended rows stamped with read_version+1 instead of the version being published",
         old="""                    Self::assign_row_ids(next_row_id, new_fragments.as_mut_slice())?;
                    // Add version metadata for all new fragments
                    let new_version = current_manifest.map(|m| m.version + 1).unwrap_or(1);""",
         new="""                    Self::assign_row_ids(next_row_id, new_fragments.as_mut_slice())?;
                    // Add version metadata for all new fragments
                    let new_version = self.read_version + 1;""",
         expect="ORIGIN-stamp|stamp:"),
    # ------------------------------------------------------------------ C42
    dict(name="c42_absolute_data_path", prop="C42", file="rust/lance/src/dataset/write.rs", what="data files recorded with their full path",
         old="""        let writer_adapter = V2WriterAdapter {
            writer: file_writer,
            path: filename,""",
         new="""        let writer_adapter = V2WriterAdapter {
            writer: file_writer,
            path: full_path.to_string(),""", expect="adapter-path:V2WriterAdapter"),
    dict(name="c42_txn_full_path", prop="C42", file=LC, what="manifest records the full transaction-file path",
         old="    Ok(file_name)\n}", new="    Ok(path.to_string())\n}", expect="returned-name"),
    # ------------------------------------------------------------------ C13
    dict(name="c13_versions_not_carried", prop="C13", file=OPT, what="compaction with stable row ids no longer recomputes the per-row versions",
         old="""        if dataset.manifest.uses_stable_row_ids() {
            recalc_versions_for_rewritten_fragments(""",
         new="""        if dataset.manifest.uses_stable_row_ids() && options.defer_index_remap {
            recalc_versions_for_rewritten_fragments(""", expect="stable:versions"),
    dict(name="c13_unordered_scan", prop="C13", file=OPT, what="the compaction scan is no longer ordered",
         old="        .scan_in_order(true);", new="        .scan_in_order(false);", expect="INV-scan|in-order"),
    dict(name="c13_sequences_not_sorted", prop="C13", file=OPT, what="old row-id sequences are rechunked in load order, not fragment order",
         old="""    old_sequences.sort_by_key(|(frag_id, _)| {
        old_fragments
            .iter()
            .position(|frag| frag.id as u32 == *frag_id)
            .expect("Fragment not found")
    });""", new="", expect="rowids:sorted"),
    dict(name="c13_versions_unmasked", prop="C13", file=OPT, what="created_at versions of deleted rows are not masked out before rechunking",
         old="            created_at_seq.mask(deletions.to_sorted_iter())?;\n", new="", expect="versions:masked"),
    dict(name="c13_ids_reserved_late", prop="C13", file=OPT, what="the address map is built before the new fragments have ids",
         old="""        reserve_fragment_ids(&dataset, new_fragments.iter_mut()).await?;

        if options.defer_index_remap {""",
         new="""        if options.defer_index_remap {
            reserve_fragment_ids(&dataset, new_fragments.iter_mut()).await?;""", expect="address:reserve"),
    dict(name="c13_remap_skipped", prop="C13", file=OPT, what="commit_compaction drops the remapped indices",
         old="""                new_index_version: rewritten.index_version,
            })
            .collect()
    } else if""",
         new="""                new_index_version: rewritten.index_version,
            })
            .filter(|_| false)
            .collect::<Vec<RewrittenIndex>>();
        Vec::new()
    } else if""", expect="rewritten_indices"),
    # ------------------------------------------------------------------ C20 trainers
    dict(name="c20_trainer_assumes_dense_ids", prop="C20", file="rust/lance-index/src/scalar/zonemap.rs", what="zone trainer looks for fragment current+1 again (the repaired defect)",
         old="                    fragment_id != self.cur_fragment_id\n", new="                    fragment_id == self.cur_fragment_id + 1\n",
         expect="ZoneMapIndexBuilder:no-arithmetic"),
    dict(name="c20_bloom_fragment_switch_before_flush", prop="C20", file="rust/lance-index/src/scalar/bloomfilter.rs", what="bloom trainer switches the current fragment before the zone is flushed",
         old="""                    if self.cur_zone_offset > 0 {
                        self.new_block(self.cur_fragment_id)?;
                    }
                    self.cur_fragment_id = row_addrs_array.value(array_offset) >> 32;""",
         new="""                    self.cur_fragment_id = row_addrs_array.value(array_offset) >> 32;
                    if self.cur_zone_offset > 0 {
                        self.new_block(self.cur_fragment_id)?;
                    }""",
         expect="BloomFilterIndexBuilder:fragment-changes-on-empty-zone"),
    # ------------------------------------------------------------------ C19 range translation
    dict(name="c19_range_gt_becomes_gteq", prop="C19", file=EX, what="`x > a AND x < b` keeps rows with x = a",
         old="(Operator::Gt, Operator::Lt) => (Bound::Excluded(left_value), Bound::Excluded(right_value)),",
         new="(Operator::Gt, Operator::Lt) => (Bound::Included(left_value), Bound::Excluded(right_value)),",
         expect="maybe_range:Gt,Lt"),
    dict(name="c19_range_upper_first_regressed", prop="C19", file=EX, what="the repaired `x <= a AND x > b` arm swapped back",
         old="""        (Operator::LtEq, Operator::Gt) => {
            (Bound::Excluded(right_value), Bound::Included(left_value))""",
         new="""        (Operator::LtEq, Operator::Gt) => {
            (Bound::Included(right_value), Bound::Excluded(left_value))""",
         expect="maybe_range:LtEq,Gt"),
    dict(name="c19_cmp_lteq_exclusive", prop="C19", file=EX, what="`x <= v` translated to an exclusive upper bound",
         old="SargableQuery::Range(Bound::Unbounded, Bound::Included(value.clone()))",
         new="SargableQuery::Range(Bound::Unbounded, Bound::Excluded(value.clone()))",
         expect="visit_comparison:LtEq"),
    dict(name="c19_between_sides_swapped", prop="C19", file=EX, what="visit_between swaps low and high",
         old="let query = SargableQuery::Range(low.clone(), high.clone());", new="let query = SargableQuery::Range(high.clone(), low.clone());",
         occ=0, expect="visit_between:sides"),
    # ------------------------------------------------------------------ C22
    dict(name="c22_unsorted_positions", prop="C22", file=PF, what="the stable-row-id deletion mask walks the deletion vector in hash-set order (the repaired defect)",
         old="row_ids.mask(deletion_vector.to_sorted_iter()).unwrap();", new="row_ids.mask(deletion_vector.iter()).unwrap();",
         expect="ORIGIN-sorted-positions|sorted:do_create_deletion_mask_row_id"),
    dict(name="c22_combine_or", prop="C22", file=PF, what="the deletion mask is or-ed instead of and-ed into the final mask",
         old="combined = combined & (*deleted_ids.get_ready()).clone();", new="combined = combined | (*deleted_ids.get_ready()).clone();",
         expect="ARMS-combine|intersection"),
    dict(name="c22_no_mask_with_deletions", prop="C22", file=PF, what="no deletion mask when nothing is missing, even with deletion files",
         old="if missing_frags.is_empty() && frags_with_deletion_files.is_empty() {", new="if missing_frags.is_empty() {",
         expect="DOM-deletion-mask|none-"),
    # ------------------------------------------------------------------ C43
    dict(name="c43_exclude_drops_nullability", prop="C43", file=FIELD, occ=1, what="Field::exclude returns the kept parent as nullable",
         old="                nullable: self.nullable,", new="                nullable: true,", expect="exclude:nullable"),
    dict(name="c43_project_loses_metadata", prop="C43", file=FIELD, occ=0, what="Field::project drops field metadata",
         old="            metadata: self.metadata.clone(),", new="            metadata: HashMap::new(),", expect="project:metadata"),
    dict(name="c43_stored_pk_lost", prop="C43", file="rust/lance-file/src/datatypes.rs", what="the unenforced-primary-key flag is not written to the stored field",
         old="            unenforced_primary_key: field.unenforced_primary_key,\n        }\n    }\n}\n\npub struct Fields",
         new="            unenforced_primary_key: false,\n        }\n    }\n}\n\npub struct Fields", expect="encode:unenforced_primary_key"),
    dict(name="c43_encoding_table_skew", prop="C43", file="rust/lance-file/src/datatypes.rs", what="RLE is written with the dictionary code",
         old="                Some(Encoding::RLE) => 4,", new="                Some(Encoding::RLE) => 3,", expect="TABLE-encoding"),
    dict(name="c43_arrow_nullable", prop="C43", file=FIELD, what="Field -> ArrowField always nullable",
         old="        let out = Self::new(&field.name, field.data_type(), field.nullable);",
         new="        let out = Self::new(&field.name, field.data_type(), true);", expect="to-arrow:nullable"),
    # ------------------------------------------------------------------ later rules
    dict(name="c32_tag_always_some", prop="C32", file="rust/lance-table/src/format/manifest.rs", what="Manifest.tag decoded as Some(\"\") when none was written",
         old="            tag: if p.tag.is_empty() { None } else { Some(p.tag) },", new="            tag: Some(p.tag),",
         expect="TABLE-default-is-none|Manifest.tag"),
    dict(name="c38_load_under_current_uri", prop="C38", file="rust/lance/src/dataset.rs", what="checkout of another branch caches the manifest's index section under the current branch's URI",
         old="            &manifest_location,\n            &new_location.uri,", new="            &manifest_location,\n            &self.uri,",
         expect="AGREE-load-scope"),
    dict(name="c36_prefix_undelimited", prop="C36", file="rust/lance-namespace-impls/src/dir/manifest.rs", what="drop_namespace's child scan uses the bare id as prefix",
         old='        let prefix = format!("{}{}", object_id, DELIMITER);', new='        let prefix = format!("{}", object_id);',
         expect="TABLE-prefix-delimited"),
    dict(name="c19_bitmap_range_unguarded", prop="C19", file="rust/lance-index/src/scalar/bitmap.rs", what="the bitmap index hands an inverted range to BTreeMap::range again",
         old="                let keys: Vec<_> = if empty_range {", new="                let keys: Vec<_> = if false {",
         expect="DOM-range-call-guarded"),
    dict(name="c22_shortcut_ignores_block_list", prop="C22", file="rust/lance/src/io/exec/knn.rs", what="late_search's shortcut walks the allow list only",
         old="                    if let Some(iter_ids) = prefilter_mask.iter_ids() {",
         new="                    if let Some(iter_ids) = prefilter_mask.allow_list.as_ref().and_then(|a| a.row_ids()) {",
         expect="INV-mask-whole"),
    dict(name="c05_new_index_fields_unchecked", prop="C05", file=TX, what="CreateIndex arm no longer fails on an index whose field left the schema",
         old="                        if !is_system_index(new_index) {\n                            return Err(Error::invalid_input(\n                                format!(\n                                    \"Cannot create index",
         new="                        if false {\n                            return Err(Error::invalid_input(\n                                format!(\n                                    \"Cannot create index",
         expect="new-indices-checked:CreateIndex"),
    dict(name="c13_remap_not_chained", prop="C13", file="rust/lance-index/src/frag_reuse.rs", what="remap_row_id looks every map up with the original address",
         old="                    .get(&mapped_value.unwrap())", new="                    .get(&row_id)", expect="ORIGIN-remap-chained"),
    dict(name="c17_delta_inserted_includes_begin", prop="C17", file="rust/lance/src/dataset/delta.rs", what="inserted-rows delta includes the begin version",
         old='"_row_created_at_version > {} AND _row_created_at_version <= {}"', new='"_row_created_at_version >= {} AND _row_created_at_version <= {}"',
         expect="TABLE-delta-filter|inserted"),
    dict(name="c17_delta_updated_swapped_ends", prop="C17", file="rust/lance/src/dataset/delta.rs", what="updated-rows delta compares created_at with the end version",
         old="            self.begin_version, self.begin_version, self.end_version", new="            self.end_version, self.begin_version, self.end_version",
         expect="TABLE-delta-filter|updated"),
]

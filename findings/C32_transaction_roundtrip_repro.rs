// Throw-away tests appended to `mod tests` of rust/lance/src/dataset/transaction.rs in a scratch worktree
// (cargo test --offline -p lance --lib verif_repro).  Both FAIL on the unchanged tree:
//   F6: frag_reuse_index lost in the stored transaction            (left: true, right: false)
//   schema metadata lost in the stored Merge transaction           (left: None, right: Some("v"))
// Overwrite goes through the same `schema_metadata: Default::default()` / `schema_metadata: _schema_metadata` pair.

#[test]
fn verif_repro_rewrite_frag_reuse_index_roundtrip() {
    let idx = IndexMetadata {
        uuid: Uuid::new_v4(),
        name: "__lance_frag_reuse".to_string(),
        fields: vec![],
        dataset_version: 1,
        fragment_bitmap: None,
        index_details: None,
        index_version: 0,
        created_at: None,
        base_id: None,
    };
    let txn = Transaction::new(
        1,
        Operation::Rewrite { groups: vec![], rewritten_indices: vec![], frag_reuse_index: Some(idx) },
        None,
    );
    let pb_txn: pb::Transaction = (&txn).into();
    let back = Transaction::try_from(pb_txn).unwrap();
    match (&txn.operation, &back.operation) {
        (Operation::Rewrite { frag_reuse_index: a, .. }, Operation::Rewrite { frag_reuse_index: b, .. }) => {
            assert_eq!(a.is_some(), b.is_some(), "F6: frag_reuse_index lost in the stored transaction")
        }
        _ => panic!("wrong operation"),
    }
}

#[test]
fn verif_repro_merge_schema_metadata_roundtrip() {
    use arrow_schema::{DataType, Field as ArrowField, Schema as ArrowSchema};
    let mut md = std::collections::HashMap::new();
    md.insert("k".to_string(), "v".to_string());
    let arrow = ArrowSchema::new_with_metadata(vec![ArrowField::new("i", DataType::Int32, false)], md);
    let schema = Schema::try_from(&arrow).unwrap();
    for op in [
        Operation::Merge { fragments: vec![], schema: schema.clone() },
        Operation::Overwrite { fragments: vec![], schema: schema.clone(), config_upsert_values: None, initial_bases: None },
    ] {
        let txn = Transaction::new(1, op, None);
        let pb_txn: pb::Transaction = (&txn).into();
        let back = Transaction::try_from(pb_txn).unwrap();
        let s2 = match &back.operation {
            Operation::Merge { schema, .. } | Operation::Overwrite { schema, .. } => schema.clone(),
            _ => panic!("wrong operation"),
        };
        assert_eq!(s2.metadata.get("k"), schema.metadata.get("k"), "schema metadata lost in the stored {} transaction", txn.operation);
    }
}

"""C19 Exact scalar indices answer filters exactly like a full scan -- planner tables only.

Decided:
  TABLE  the Exact/AtMost/AtLeast combination table and the RowIdMask algebra (shared with C21)
  TABLE  IndexedExpression::maybe_not over all shapes: negation is refused (None) whenever the index part needs a recheck
         or a refine expression accompanies an index part; maybe_or refuses when either side has a refine expression or lacks an
         index part; and() keeps both refine expressions and both index parts
  TABLE  ScalarIndexExpr::needs_recheck is the disjunction over all leaves (Not / And / Or over leaf flags)
  TABLE  SargableQueryParser (the parser of the exact B-tree and bitmap indices): visit_between, visit_in_list and
         visit_comparison return None whenever a literal is NULL (a NULL literal must fall back to the scan's three-valued
         logic; the index stores NULL keys and would return them for `= NULL`)
  ORIGIN btree / bitmap construct their parser with needs_recheck = false; exact indices' search() constructs only
         SearchResult::Exact
Not decided: index contents, remap / update histories, literal coercion.
"""
import itertools

from engine import absint
from engine.absint import UNK, Abort, Ref, mk_adt, mk_none, mk_some
from engine.cfg import expr_of
from engine.facts import AnchorMissing
from .C21 import check_mask_algebra, check_combination_table, Ref_to
from .common import user_body, calls, name_of, has_name
from .common import origin_has_call as origin_has

LEVEL = "proof"
EXPR = "lance-index/src/scalar/expression.rs"


def leaf(recheck):
    return mk_adt("ScalarIndexExpr", "Query", {"0": mk_adt("ScalarIndexSearch", "ScalarIndexSearch", {
        "column": ("col",), "index_name": ("idx",), "query": ("q",), "needs_recheck": recheck})})


def box_hooks():
    return [
        ("std::boxed::Box::<T>::new", lambda it, t, a: a[0]),
        ("Expr::and", lambda it, t, a: ("and", a[0], a[1])),
    ]


def describe(v):
    if isinstance(v, dict) and "$variant" in v:
        if v["$variant"] == "Query":
            return "Q(recheck=%s)" % v["0"]["needs_recheck"]
        if v["$variant"] in ("Not",):
            return "Not(%s)" % describe(v["0"])
        if v["$variant"] in ("And", "Or"):
            return "%s(%s,%s)" % (v["$variant"], describe(v["0"]), describe(v["1"]))
        if v["$variant"] == "Some":
            return "Some(%s)" % describe(v["0"])
        if v["$variant"] == "None":
            return "None"
        if v["$variant"] == "IndexedExpression":
            return "{sq=%s, refine=%s}" % (describe(v["scalar_query"]), describe(v["refine_expr"]))
    return str(v)[:40]


def ie(sq, refine):
    return mk_adt("IndexedExpression", "IndexedExpression", {"scalar_query": sq, "refine_expr": refine})


def check_planner_tables(db, chk):
    R = "TABLE-planner"
    chk.rule(R, "IndexedExpression::{maybe_not, maybe_or, and} and ScalarIndexExpr::needs_recheck interpreted over all shapes")
    f_not = db.one(r"^scalar::expression::IndexedExpression::maybe_not$", file=EXPR)
    f_or = db.one(r"^scalar::expression::IndexedExpression::maybe_or$", file=EXPR)
    f_and = db.one(r"^scalar::expression::IndexedExpression::and$", file=EXPR)
    f_nr = db.one(r"^scalar::expression::ScalarIndexExpr::needs_recheck$", file=EXPR)
    for f in (f_not, f_or, f_and, f_nr):
        chk.analysed(f)
    it = absint.Interp(db, box_hooks(), lenient=True)

    def run1(f, args):
        res = list(it.explore(lambda: it.call_fn(f, args)))
        if len(res) != 1:
            raise Abort("nondeterministic (%d outcomes)" % len(res))
        return res[0]
    sqs = {"none": lambda: mk_none(), "exact": lambda: mk_some(leaf(False)), "inexact": lambda: mk_some(leaf(True))}
    refs = {"none": lambda: mk_none(), "some": lambda: mk_some(("expr",))}
    # needs_recheck
    for shape, build, exp in (
            ("Q(F)", lambda: leaf(False), False), ("Q(T)", lambda: leaf(True), True),
            ("Not(Q(T))", lambda: mk_adt("ScalarIndexExpr", "Not", {"0": leaf(True)}), True),
            ("Not(Q(F))", lambda: mk_adt("ScalarIndexExpr", "Not", {"0": leaf(False)}), False),
            ("And(F,T)", lambda: mk_adt("ScalarIndexExpr", "And", {"0": leaf(False), "1": leaf(True)}), True),
            ("And(T,F)", lambda: mk_adt("ScalarIndexExpr", "And", {"0": leaf(True), "1": leaf(False)}), True),
            ("And(F,F)", lambda: mk_adt("ScalarIndexExpr", "And", {"0": leaf(False), "1": leaf(False)}), False),
            ("Or(F,T)", lambda: mk_adt("ScalarIndexExpr", "Or", {"0": leaf(False), "1": leaf(True)}), True),
            ("Or(T,F)", lambda: mk_adt("ScalarIndexExpr", "Or", {"0": leaf(True), "1": leaf(False)}), True),
            ("Or(F,F)", lambda: mk_adt("ScalarIndexExpr", "Or", {"0": leaf(False), "1": leaf(False)}), False),
            ("Not(And(F,Or(F,T)))", lambda: mk_adt("ScalarIndexExpr", "Not", {"0": mk_adt("ScalarIndexExpr", "And", {
                "0": leaf(False), "1": mk_adt("ScalarIndexExpr", "Or", {"0": leaf(False), "1": leaf(True)})})}), True)):
        try:
            got = run1(f_nr, [Ref_to(build())])
            chk.ob(R, "needs_recheck:%s" % shape, got is exp, "needs_recheck(%s) = %s (required %s: disjunction over the leaves)" % (shape, got, exp), f_nr.loc())
        except Abort as e:
            chk.ob(R, "needs_recheck:%s" % shape, False, "interpreter aborted (fail closed): %s" % e, f_nr.loc())
    # maybe_not
    for sk, rk in itertools.product(sqs, refs):
        if sk == "none" and rk == "none":
            continue   # documented to panic ("Empty node should not occur")
        key = "maybe_not:sq=%s,refine=%s" % (sk, rk)
        try:
            got = run1(f_not, [ie(sqs[sk](), refs[rk]())])
            is_none = got.get("$variant") == "None"
            must_refuse = (sk != "none" and rk != "none") or sk == "inexact"
            ok = is_none if must_refuse else (not is_none)
            if ok and not is_none:
                inner = got["0"]
                if sk == "exact":
                    ok = inner["scalar_query"]["$variant"] == "Some" and inner["scalar_query"]["0"]["$variant"] == "Not" and inner["refine_expr"]["$variant"] == "None"
                else:
                    ok = inner["scalar_query"]["$variant"] == "None" and inner["refine_expr"]["$variant"] == "Some"
            chk.ob(R, key, ok, "maybe_not -> %s (required: %s)" % (describe(got), "None (cannot negate an inexact / mixed result)" if must_refuse else "negated"), f_not.loc())
        except Abort as e:
            chk.ob(R, key, False, "interpreter aborted (fail closed): %s" % e, f_not.loc())
    # maybe_or
    for (s1, r1), (s2, r2) in itertools.product(itertools.product(sqs, refs), repeat=2):
        key = "maybe_or:(%s,%s)|(%s,%s)" % (s1, r1, s2, r2)
        try:
            got = run1(f_or, [ie(sqs[s1](), refs[r1]()), ie(sqs[s2](), refs[r2]())])
            is_none = got.get("$variant") == "None"
            must_refuse = s1 == "none" or s2 == "none" or r1 != "none" or r2 != "none"
            ok = is_none == must_refuse
            if ok and not is_none:
                ok = got["0"]["scalar_query"]["0"]["$variant"] == "Or" and got["0"]["refine_expr"]["$variant"] == "None"
            chk.ob(R, key, ok, "maybe_or -> %s (required: %s)" % (describe(got), "None" if must_refuse else "Or of both index parts, no refine"), f_or.loc())
        except Abort as e:
            chk.ob(R, key, False, "interpreter aborted (fail closed): %s" % e, f_or.loc())
    # and
    for (s1, r1), (s2, r2) in itertools.product(itertools.product(sqs, refs), repeat=2):
        key = "and:(%s,%s)&(%s,%s)" % (s1, r1, s2, r2)
        try:
            got = run1(f_and, [ie(sqs[s1](), refs[r1]()), ie(sqs[s2](), refs[r2]())])
            n_sq = (s1 != "none") + (s2 != "none")
            n_rf = (r1 != "none") + (r2 != "none")
            sq, rf = got["scalar_query"], got["refine_expr"]
            ok_sq = (sq["$variant"] == "None") if n_sq == 0 else (sq["$variant"] == "Some" and ((sq["0"]["$variant"] == "And") == (n_sq == 2)))
            ok_rf = (rf["$variant"] == "None") if n_rf == 0 else (rf["$variant"] == "Some" and ((isinstance(rf["0"], tuple) and rf["0"][0] == "and") == (n_rf == 2)))
            chk.ob(R, key, ok_sq and ok_rf, "and -> %s (required: both index parts and both refine expressions kept)" % describe(got), f_and.loc())
        except Abort as e:
            chk.ob(R, key, False, "interpreter aborted (fail closed): %s" % e, f_and.loc())


def check_null_guards(db, chk):
    R = "TABLE-null-guards"
    chk.rule(R, "SargableQueryParser returns None whenever a literal is NULL")
    parser = "scalar::expression::SargableQueryParser as scalar::expression::ScalarQueryParser"
    bounds = {"Included": lambda: mk_adt("Bound", "Included", {"0": ("lit",)}), "Excluded": lambda: mk_adt("Bound", "Excluded", {"0": ("lit",)}),
              "Unbounded": lambda: mk_adt("Bound", "Unbounded", {})}

    def mk_interp():
        def is_null(it, t, a):
            ans = it.fork_bool(("is_null", t.get("ln"), t.get("col")))
            it.events.append(("is_null", ans))
            return ans

        def any_(it, t, a):
            clo = it.deref(a[1])
            if isinstance(clo, dict) and "$closure" in clo:
                k = it.db.fns[clo["$closure"]]
                return it.call_fn(k, [Ref_to(clo), Ref_to(("lit",))])
            return it.fork_bool(("any", t.get("ln")))
        return absint.Interp(db, box_hooks() + [("ScalarValue::is_null", is_null), ("as std::iter::Iterator>::any", any_), ("std::iter::Iterator::any", any_)],
                             lenient=True)
    n_guarded = 0
    this = mk_adt("SargableQueryParser", "SargableQueryParser", {"index_name": ("idx",), "needs_recheck": False})
    cases = []
    f_between = db.one(r"^<%s>::visit_between$" % parser, file=EXPR)
    for lo, hi in itertools.product(bounds, repeat=2):
        cases.append(("visit_between(%s,%s)" % (lo, hi), f_between, lambda lo=lo, hi=hi: [Ref_to(this), ("col",), Ref_to(bounds[lo]()), Ref_to(bounds[hi]())],
                      (lo != "Unbounded") + (hi != "Unbounded")))
    f_in = db.one(r"^<%s>::visit_in_list$" % parser, file=EXPR)
    cases.append(("visit_in_list", f_in, lambda: [Ref_to(this), ("col",), UNK], 1))
    f_cmp = db.one(r"^<%s>::visit_comparison$" % parser, file=EXPR)
    op = db.adts.get("datafusion_expr::Operator")
    for opname in ("Lt", "LtEq", "Gt", "GtEq", "Eq", "NotEq"):
        cases.append(("visit_comparison(%s)" % opname, f_cmp, lambda opname=opname: [Ref_to(this), ("col",), Ref_to(("lit",)), Ref_to(mk_adt("Operator", opname, {}))], 1))
    for key, f, args, n_lits in cases:
        chk.analysed(f)
        it = mk_interp()
        ok, det, asked_max = True, "", 0
        try:
            for res in it.explore(lambda: it.call_fn(f, args())):
                nulls = [e[1] for e in it.events if e[0] == "is_null"]
                asked_max = max(asked_max, len(nulls))
                is_none = isinstance(res, dict) and res.get("$variant") == "None"
                if any(nulls) and not is_none:
                    ok, det = False, "a NULL literal reaches the index query (is_null answers %s, result %s)" % (nulls, describe(res))
                if not any(nulls) and len(nulls) < n_lits and not is_none:
                    ok, det = False, "only %d of %d literal(s) were tested for NULL before building the query" % (len(nulls), n_lits)
        except Abort as e:
            ok, det = False, "interpreter aborted (fail closed): %s" % e
        n_guarded += n_lits
        chk.ob(R, key, ok, det or "every literal is tested with is_null and a NULL literal yields None (%d test(s))" % asked_max, f.loc())
    chk.floor(R, "guarded literals", n_guarded, 4)


def check_exact_indices(db, chk):
    R = "ORIGIN-exact"
    chk.rule(R, "exact indices: parser built with needs_recheck=false; search() constructs only SearchResult::Exact")
    for ty, file in (("btree::BTreeIndex", "lance-index/src/scalar/btree.rs"), ("bitmap::BitmapIndex", "lance-index/src/scalar/bitmap.rs")):
        fs = [f for f in db.fns.values() if f.file.endswith(file) and f.path.endswith("::new_query_parser") and f.kind == "method"]
        if not fs:
            raise AnchorMissing("new_query_parser not found in %s" % file)
        for f in fs:
            chk.analysed(f)
            cs = calls(f, "SargableQueryParser::new")
            ok = len(cs) == 1 and cs[0][1]["args"][1].get("v") is False
            chk.ob(R, "parser-recheck-false:%s" % file.split("/")[-1], ok, "%s builds SargableQueryParser::new(_, %s)" % (f.path.split("::")[-3], cs[0][1]["args"][1].get("v") if cs else "?"), f.loc())
    for file in ("lance-index/src/scalar/btree.rs", "lance-index/src/scalar/bitmap.rs", "lance-index/src/scalar/label_list.rs"):
        fs = [f for f in db.fns.values() if f.file.endswith(file) and f.kind == "method" and (f.r.get("impl_trait") or "").endswith("scalar::ScalarIndex") and f.path.endswith("::search")]
        if not fs:
            raise AnchorMissing("ScalarIndex::search not found in %s" % file)
        for f in fs:
            kinds = set()
            for k in f.family():
                for i, j, s in k.cfg.aggregates(adt="scalar::SearchResult"):
                    kinds.add(s["rv"]["variant"])
                chk.analysed(k)
            chk.ob(R, "search-kinds:%s:%s" % (file.split("/")[-1], f.r.get("impl_self")), kinds <= {"Exact"} and bool(kinds) or not kinds and _delegates(f),
                   "search() of %s constructs SearchResult kinds %s (required: Exact only%s)" % (f.r.get("impl_self"), sorted(kinds), "" if kinds else "; delegates to an inner index"), f.loc())


LOWER = {"Gt": "Excluded", "GtEq": "Included"}      # x OP v bounds x from below; the bound is inclusive iff OP is >=
UPPER = {"Lt": "Excluded", "LtEq": "Included"}      # x OP v bounds x from above; inclusive iff OP is <=


def _named_source(c, op, reach=None, depth=8):
    """Name of the user variable an operand is a copy / borrow / clone of."""
    from engine.cfg import op_place
    p = op_place(op)
    while p is not None and depth > 0:
        depth -= 1
        nm = c.fn.locals[p[0]].get("name")
        if nm:
            return nm
        live = [df for df in c.defs.get(p[0], {"whole": []})["whole"] if reach is None or df[1] in reach]
        if len(live) != 1:
            return None
        df = live[0]
        if df[0] == "assign":
            rv = df[3]["rv"]
            p = rv.get("place") if rv["r"] == "ref" else (op_place(rv["op"]) if rv["r"] == "use" else None)
        elif df[0] == "call" and has_name(df[2], "Clone>::clone", "::clone", "::to_owned"):
            p = op_place(df[2]["args"][0])
        else:
            return None
    return None


def _bound_built(c, op, reach):
    """(variant, named source of its payload) of the std::ops::Bound an operand holds, using only definitions in `reach`."""
    from engine.cfg import op_place
    p = op_place(op)
    if p is None:
        return None
    live = [df for df in c.defs.get(p[0], {"whole": []})["whole"] if df[1] in reach]
    if len(live) != 1 or live[0][0] != "assign":
        return None
    rv = live[0][3]["rv"]
    if rv["r"] == "use":
        return _bound_built(c, rv["op"], reach)
    if rv["r"] == "agg" and (rv.get("adt") or "").endswith("ops::Bound"):
        return (rv["variant"], _named_source(c, rv["ops"][0], reach) if rv["ops"] else None)
    return None


def check_range_translation(db, chk):
    """The comparison -> index-range translation, checked against the meaning of the operators (not against a stored copy):
    for `x OP1 a AND x OP2 b` the lower bound is the value of the >/>= side, inclusive iff that operator is >=, and the
    upper bound the value of the </<= side, inclusive iff it is <=; two bounds on the same side are not a range."""
    from engine.cfg import op_place
    R = "TABLE-range-translation"
    chk.rule(R, "maybe_range / visit_comparison / visit_between translate comparison operators into the Bound kinds and sides they mean")
    f = db.one(r"^scalar::expression::maybe_range$", file=EXPR)
    chk.analysed(f)
    c = f.cfg
    ops_sw = [b for b in sorted(c.reach0) if c.switch_info(b) and c.switch_info(b)["kind"] == "enum" and
              (c.switch_info(b)["adt"] or "").endswith("Operator") and c.switch_info(b)["place"] and len(c.switch_info(b)["place"]) == 2]
    top = [b for b in ops_sw if c.switch_info(b)["place"][1].get("f") == "0"]
    snd = [b for b in ops_sw if c.switch_info(b)["place"][1].get("f") == "1"]
    if len(top) != 1 or not snd:
        raise AnchorMissing("maybe_range: match on (left_expr.op, right_expr.op) not found (%d/%d)" % (len(top), len(snd)))
    vb = calls(f, "visit_between")
    if len(vb) != 1:
        raise AnchorMissing("maybe_range: expected one visit_between call, found %d" % len(vb))
    lo = [i for i, l in enumerate(f.locals) if l.get("name") == "low"]
    hi = [i for i, l in enumerate(f.locals) if l.get("name") == "high"]
    chk.ob(R, "maybe_range:passes-low-high", _named_source(c, vb[0][1]["args"][2]) == "low" and _named_source(c, vb[0][1]["args"][3]) == "high",
           "visit_between(column, &low, &high) in that order", f.loc(vb[0][1]["ln"]))
    n_tr = 0
    for o1 in ("Lt", "LtEq", "Gt", "GtEq"):
        for o2 in ("Lt", "LtEq", "Gt", "GtEq"):
            def ef(b, o1=o1, o2=o2):
                if b == top[0]:
                    return [c.switch_info(b)["label_to"][o1]]
                if b in snd:
                    si = c.switch_info(b)
                    return [si["label_to"].get(o2, c.blocks[b]["term"]["else"])]
                return None
            reach = c.reachable_from([0], include_start=True, edge_filter=ef)
            translated = vb[0][0] in reach
            same_side = (o1 in LOWER) == (o2 in LOWER)
            key = "maybe_range:%s,%s" % (o1, o2)
            if same_side:
                chk.ob(R, key, not translated, "`x %s a AND x %s b` bounds x twice from the same side: not a range (translated: %s)" % (o1, o2, translated), f.loc())
                continue
            if not translated:
                chk.info("maybe_range declines (%s, %s): handled as two separate comparisons" % (o1, o2))
                continue
            n_tr += 1
            # the (low, high) tuple live in this arm
            tup = [s for i, j, s in c.stmts() if i in reach and (s.get("rv") or {}).get("r") == "agg" and not s["rv"].get("adt") and
                   not s["rv"].get("closure") and len(s["rv"]["ops"]) == 2]
            tup = [s for s in tup if all(_bound_built(c, o, reach) for o in s["rv"]["ops"])]
            if len(tup) != 1:
                chk.ob(R, key, False, "could not isolate the (low, high) pair built for (%s, %s): %d candidates" % (o1, o2, len(tup)), f.loc())
                continue
            low = _bound_built(c, tup[0]["rv"]["ops"][0], reach)
            high = _bound_built(c, tup[0]["rv"]["ops"][1], reach)
            lower_is_left = o1 in LOWER
            want_low = (LOWER[o1 if lower_is_left else o2], "left_value" if lower_is_left else "right_value")
            want_high = (UPPER[o2 if lower_is_left else o1], "right_value" if lower_is_left else "left_value")
            chk.ob(R, key, low == want_low and high == want_high,
                   "`x %s a AND x %s b` (a = left_value, b = right_value) is translated to low=%s(%s), high=%s(%s); the operators mean low=%s(%s), high=%s(%s)" % (
                       o1, o2, low[0], low[1], high[0], high[1], want_low[0], want_low[1], want_high[0], want_high[1]), f.loc(tup[0]["ln"]))
    chk.floor(R, "operator pairs translated by maybe_range", n_tr, 8)
    # left_value / right_value really are the literals of the left / right comparison
    for nm, side, other in (("left_value", "left_expr", "right_expr"), ("right_value", "right_expr", "left_expr")):
        ls = [i for i, l in enumerate(f.locals) if l.get("name") == nm]
        sv = [i for i, l in enumerate(f.locals) if l.get("name") == side]
        ov = [i for i, l in enumerate(f.locals) if l.get("name") == other]
        ok = bool(ls) and bool(sv) and bool(ov)
        if ok:
            ok = False
            for b, t in calls(f, "expression::maybe_scalar"):
                if not (t.get("dest") and _derives(c, ls[0], t["dest"][0])):
                    continue
                a0 = op_place(t["args"][0])
                o0 = c.op_origins(t["args"][0], transparent=lambda t: True)
                ok = a0 is not None and ("field", "right") in o0 and _derives(c, a0[0], sv[0]) and not _derives(c, a0[0], ov[0])
        chk.ob(R, "maybe_range:%s" % nm, ok, "%s = maybe_scalar(&%s.right, ..): the literal of that comparison, not of %s" % (nm, side, other), f.loc())

    # single comparisons
    g = db.one(r"SargableQueryParser as scalar::expression::ScalarQueryParser>::visit_comparison$", file=EXPR)
    chk.analysed(g)
    gc = g.cfg
    sw = [b for b in sorted(gc.reach0) if gc.switch_info(b) and gc.switch_info(b)["kind"] == "enum" and (gc.switch_info(b)["adt"] or "").endswith("Operator")]
    if len(sw) != 1:
        raise AnchorMissing("visit_comparison: match on Operator not found")
    si = gc.switch_info(sw[0])
    for o in ("Lt", "LtEq", "Gt", "GtEq", "Eq", "NotEq"):
        tgt = si["label_to"].get(o)
        others = {t for t in si["label_to"].values() if t != tgt}
        reach = gc.reachable_from([tgt], include_start=True, avoid=others) | {b for b in gc.reach0 if gc.dominates(b, sw[0])}
        qs = [s for i, j, s in gc.aggregates() if i in reach and gc.dominates(tgt, i) and (s["rv"].get("adt") or "").endswith("SargableQuery")]
        if len(qs) != 1:
            chk.ob(R, "visit_comparison:%s" % o, False, "%d SargableQuery values built in the %s arm" % (len(qs), o), g.loc())
            continue
        rv = qs[0]["rv"]
        if o in ("Eq", "NotEq"):
            chk.ob(R, "visit_comparison:%s" % o, rv["variant"] == "Equals" and _named_source(gc, rv["ops"][0], reach) == "value",
                   "`x %s v` -> %s(%s)%s" % ("=" if o == "Eq" else "<>", rv["variant"], _named_source(gc, rv["ops"][0], reach), " (negated by the caller)" if o == "NotEq" else ""), g.loc(qs[0]["ln"]))
            continue
        if rv["variant"] != "Range":
            chk.ob(R, "visit_comparison:%s" % o, False, "`x %s v` -> %s" % (o, rv["variant"]), g.loc(qs[0]["ln"]))
            continue
        low = _bound_built(gc, rv["ops"][0], reach)
        high = _bound_built(gc, rv["ops"][1], reach)
        want_low = (LOWER[o], "value") if o in LOWER else ("Unbounded", None)
        want_high = (UPPER[o], "value") if o in UPPER else ("Unbounded", None)
        chk.ob(R, "visit_comparison:%s" % o, low == want_low and high == want_high,
               "`x %s v` -> Range(%s, %s); the operator means Range(%s, %s)" % (o, low, high, want_low, want_high), g.loc(qs[0]["ln"]))
    # between keeps the sides
    h = db.one(r"SargableQueryParser as scalar::expression::ScalarQueryParser>::visit_between$", file=EXPR)
    chk.analysed(h)
    hc = h.cfg
    qs = [s for i, j, s in hc.aggregates() if (s["rv"].get("adt") or "").endswith("SargableQuery") and s["rv"]["variant"] == "Range"]
    ok = len(qs) == 1 and _named_source(hc, qs[0]["rv"]["ops"][0]) == "low" and _named_source(hc, qs[0]["rv"]["ops"][1]) == "high"
    chk.ob(R, "visit_between:sides", ok, "visit_between builds Range(low.clone(), high.clone())", h.loc(qs[0]["ln"]) if qs else h.loc())


def check_empty_range_guards(db, chk):
    """Exact indices short-cut ranges that cannot contain anything.  Wherever a search matches on the pair of bound kinds and
    compares the two bound values, the inclusive-inclusive case [v, v] still contains v: it may be declared empty by `>` only,
    never by `>=` (nor `<=` with the operands swapped)."""
    from engine.cfg import op_place
    R = "TABLE-empty-range"
    chk.rule(R, "a two-sided range with both bounds inclusive is never declared empty by a non-strict comparison of its bounds")
    n = 0
    for f in sorted(db.fns.values(), key=lambda f: (f.file, f.line)):
        if not f.focus or "lance-index/src/scalar/" not in f.file or f.file.endswith("expression.rs"):
            continue
        c = f.cfg
        groups = {}
        for b in sorted(c.reach0):
            si = c.switch_info(b)
            if si and si["kind"] == "enum" and (si["adt"] or "").endswith("ops::Bound") and si["place"] and "Included" in si["label_to"]:
                flds = [e["f"] for e in si["place"][1:] if isinstance(e, dict) and str(e.get("f", "")).isdigit()]
                if flds:
                    groups.setdefault((si["place"][0], flds[0]), []).append(b)
        roots = {}
        for (root, fld), bs in groups.items():
            roots.setdefault(root, {})[fld] = bs
        for root, by in roots.items():
            if not ("0" in by and "1" in by):
                continue
            def payload_side(op, root=root, depth=8):
                # '0' / '1' when the operand is (a borrow / copy of) the payload of that tuple field of `root`
                def of_place(p, depth):
                    if p is None or depth == 0:
                        return None
                    if p[0] == root:
                        fl = [e["f"] for e in p[1:] if isinstance(e, dict) and str(e.get("f", "")).isdigit()]
                        return fl[0] if fl else None
                    if [e for e in p[1:] if e != "*"]:
                        return None
                    # a binding of an or-pattern has one definition per alternative: they must agree
                    sides = set()
                    for df in c.defs.get(p[0], {"whole": []})["whole"]:
                        if df[1] not in c.reach0:
                            continue
                        if df[0] != "assign":
                            return None
                        rv = df[3]["rv"]
                        q = rv.get("place") if rv["r"] == "ref" else (op_place(rv["op"]) if rv["r"] == "use" else None)
                        sides.add(of_place(q, depth - 1))
                    return sides.pop() if len(sides) == 1 else None
                return of_place(op_place(op), depth)
            cmps = [(b, t) for b, t in c.calls() if any(nm.endswith(("::ge", "::gt", "::le", "::lt")) and "PartialOrd" in nm for nm in [name_of(t)]) and
                    any(c.dominates(x, b) for x in by["0"] + by["1"]) and
                    any(b in c.reachable_from([x]) for x in by["0"]) and any(b in c.reachable_from([x]) for x in by["1"]) and
                    {payload_side(t["args"][0]), payload_side(t["args"][1])} == {"0", "1"}]
            if not cmps:
                continue
            n += 1
            chk.analysed(f)

            def ef(b, by=by):
                if b in by["0"] or b in by["1"]:
                    return [c.switch_info(b)["label_to"]["Included"]]
                return None
            reach = c.reachable_from([0], include_start=True, edge_filter=ef)
            ops = sorted({name_of(t).split("::")[-1] for b, t in cmps if b in reach})
            chk.ob(R, "inclusive-inclusive:%s" % f.path.split("::{closure")[0].split("::")[-1], not ({"ge", "le"} & set(ops)),
                   "%s: with both bounds inclusive the bound values are compared with %s (a non-strict comparison would declare [v, v] empty)" % (
                       f.path.split("::{closure")[0], ops or "nothing"), f.loc(cmps[0][1]["ln"]))
    chk.floor(R, "range-emptiness guards found in the exact indices", n, 1)


def _behind(c, op_or_place, limit=200):
    """Locals a value was copied / borrowed / projected from (field-sensitive through tuple aggregates, through the arguments
    of calls, not into the payload of a Bound aggregate); also the Bound variants met and the blocks that assign them."""
    from engine.cfg import op_place
    start = op_or_place if isinstance(op_or_place, list) else op_place(op_or_place)
    seen, variants, vblocks = set(), set(), {}
    work = [start] if start is not None else []
    while work and len(seen) < limit:
        p = work.pop()
        l = p[0]
        fld = next((e["f"] for e in p[1:] if isinstance(e, dict) and "f" in e), None)
        key = (l, fld if fld is not None and str(fld).isdigit() else None)
        if key in seen:
            continue
        seen.add(key)
        d = c.defs.get(l)
        if not d:
            continue
        for df in d["whole"] + d["part"]:
            if df[0] == "assign":
                rv = df[3]["rv"]
                if rv["r"] == "agg" and rv.get("tuple") and key[1] is not None and int(key[1]) < len(rv["ops"]):
                    q = op_place(rv["ops"][int(key[1])])
                    if q:
                        work.append(q)
                elif rv["r"] == "agg" and (rv.get("adt") or "").endswith("ops::Bound"):
                    variants.add(rv["variant"])
                    vblocks.setdefault(rv["variant"], set()).add(df[1])
                elif rv["r"] == "agg":
                    for o in rv["ops"]:
                        q = op_place(o)
                        if q:
                            work.append(q)
                elif rv["r"] == "ref":
                    work.append(rv["place"])
                elif rv["r"] in ("use", "cast") and op_place(rv.get("op")) is not None:
                    work.append(op_place(rv["op"]))
                else:
                    variants.add("?")
            elif df[0] == "call":
                variants.add("?")
                for a in df[2]["args"]:
                    q = op_place(a)
                    if q:
                        work.append(q)
    return {k[0] for k in seen}, variants, vblocks


def check_range_call_guarded(db, chk):
    """std's BTreeMap::range panics when start > end, and when start == end with both bounds excluded.  `i > 10 AND i < 5` is
    an ordinary (empty) filter, so an index that hands the two bounds of a query to BTreeMap::range has to compare them first
    on every path where both are bounded (the B-tree's pages_between is the positive instance)."""
    R = "DOM-range-call-guarded"
    chk.rule(R, "every BTreeMap::range((lower, upper)) in the exact indices whose two bounds can both be bounded is reached only "
                "through an ordering comparison of the two bound values (or with one side Unbounded)")
    n = 0
    for f in sorted(db.fns.values(), key=lambda f: (f.file, f.line)):
        if not f.focus or "lance-index/src/scalar/" not in f.file or f.file.endswith("expression.rs"):
            continue
        c = f.cfg
        for b, t in c.calls():
            nm = name_of(t)
            if not ("BTreeMap" in nm and nm.endswith("::range")) or len(t["args"]) < 2:
                continue
            from engine.cfg import op_place
            tp = op_place(t["args"][1])
            d = c.single_def(tp[0]) if tp and len(tp) == 1 else None
            if not (d and d[0] == "assign" and d[3]["rv"]["r"] == "agg" and d[3]["rv"].get("tuple") and len(d[3]["rv"]["ops"]) == 2):
                chk.ob(R, "range-argument:%s" % f.path.split("::{closure")[0], False,
                       "the argument of BTreeMap::range is not a (lower, upper) tuple built in this function: cannot be decided", f.loc(t["ln"]))
                continue
            sides = [_behind(c, o) for o in d[3]["rv"]["ops"]]
            who = f.path.split("::{closure")[0].split("::")[-1]
            if any(v == {"Unbounded"} for _, v, _ in sides):
                chk.info("%s: BTreeMap::range with a constant Unbounded side (%s:%s)" % (who, f.file, t["ln"]))
                continue
            n += 1
            chk.analysed(f)
            avoid = set()
            for _, _, vb in sides:
                avoid |= vb.get("Unbounded", set())
            cmps = set()
            for bb, tt in c.calls():
                cn = name_of(tt)
                if not (cn.endswith(("::lt", "::le", "::gt", "::ge", "::cmp", "::partial_cmp")) and len(tt["args"]) == 2):
                    continue
                a0, a1 = _behind(c, tt["args"][0])[0], _behind(c, tt["args"][1])[0]
                if (a0 & sides[0][0] and a1 & sides[1][0]) or (a0 & sides[1][0] and a1 & sides[0][0]):
                    cmps.add(bb)
            # the comparison has to decide: a branch on (a value computed from) its result with a way out that does not reach
            # the range call
            for x in sorted(c.reach0):
                si = c.switch_info(x)
                if not (si and si.get("place")):
                    continue
                org = c.origins(si["place"][0], transparent=lambda t_: False)
                if not any(o[0] == "call" and o[2] in cmps for o in org):
                    continue
                if any(b not in c.reachable_from([y], include_start=True) for y in c.succ[x]):
                    avoid.add(x)
            related = sides[0][0] | sides[1][0]

            def ef(x):
                si = c.switch_info(x)
                if si and si["kind"] == "enum" and (si["adt"] or "").endswith("ops::Bound") and si["place"] and "Unbounded" in si["label_to"]:
                    if _behind(c, list(si["place"]))[0] & related:
                        return [y for y in c.succ[x] if y != si["label_to"]["Unbounded"]]
                return None
            reach = c.reachable_from([0], include_start=True, avoid=sorted(avoid - {b}), edge_filter=ef)
            chk.ob(R, "guarded:%s" % who, b not in reach,
                   "%s hands two query bounds to BTreeMap::range; %s" % (
                       f.path.split("::{closure")[0],
                       "every path with both bounded passes a branch on a comparison of the bound values that can leave without the call" if b not in reach else
                       "a path with both bounded reaches it without a deciding comparison of the bound values: an inverted range "
                       "(`x > 10 AND x < 5`) panics inside std instead of selecting nothing"), f.loc(t["ln"]))
    chk.floor(R, "BTreeMap::range calls on query bounds", n, 2)


def _derives(c, start, target, limit=60):
    seen, work = set(), [start]
    from engine.cfg import op_place
    while work and len(seen) < limit:
        l = work.pop()
        if l == target:
            return True
        if l in seen:
            continue
        seen.add(l)
        for df in c.defs.get(l, {"whole": []})["whole"]:
            if df[0] == "assign":
                rv = df[3]["rv"]
                p = rv.get("place") if rv["r"] == "ref" else (op_place(rv["op"]) if rv["r"] == "use" else None)
                if p:
                    work.append(p[0])
            elif df[0] == "call":
                for a in df[2]["args"]:
                    p = op_place(a)
                    if p:
                        work.append(p[0])
    return False


def _delegates(f):
    return any(has_name(t, "ScalarIndex>::search", "ScalarIndex::search", "::search") for k in f.family() for _, t in k.cfg.calls())


def run(db, chk):
    chk.assume("RowIdTreeMap set operations (see C21)")
    check_mask_algebra(db, chk)
    check_combination_table(db, chk)
    check_planner_tables(db, chk)
    check_null_guards(db, chk)
    check_range_translation(db, chk)
    check_empty_range_guards(db, chk)
    check_range_call_guarded(db, chk)
    check_exact_indices(db, chk)
    chk.extra["exhaustive"] = True
    chk.info("sibling parsers without NULL guards (LabelListQueryParser; BloomFilterQueryParser always rechecks) are deviations listed for review, not violations")

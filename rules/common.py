"""Shared rule helpers (all static, over lens facts)."""
from engine.cfg import callee_names, op_place, fmt_place, default_transparent
from engine.facts import AnchorMissing


def name_of(t):
    return t.get("rp") or t.get("p") or ""


def has_name(t, *subs):
    names = callee_names(t)
    return any(s in nm for s in subs for nm in names)


def user_body(db, fn, marker=None):
    """The function in fn's closure family that carries the user code of an async fn /
    #[async_trait] / #[instrument] / #[async_recursion] method: the family member with the most
    reachable blocks (optionally: the unique one containing a call matching `marker`)."""
    fam = fn.family()
    if marker:
        c = [f for f in fam if f.cfg.calls_named(*marker if isinstance(marker, (list, tuple)) else (marker,))]
        if len(c) == 1:
            return c[0]
        if not c:
            raise AnchorMissing("no body of %s contains a call to %s" % (fn.path, marker))
        # several: take the outermost (smallest nesting depth)
        c.sort(key=lambda f: f.id.count("{closure"))
        return c[0]
    cors = [f for f in fam if f.kind == "coroutine"]
    if not cors:
        return fn
    cors.sort(key=lambda f: -len(f.cfg.reach0))
    return cors[0]


def calls(fn, *subs):
    """Call sites by callee-name substring.  `Future::poll` of an awaited async body resolves to `<callee>::{closure#0}`;
    those are the await points of a call already listed, not call sites of their own, and are skipped."""
    return [(b, t) for b, t in fn.cfg.calls_named(*subs) if "::{closure#" not in name_of(t)]


def one_call(fn, *subs):
    r = calls(fn, *subs)
    if len(r) != 1:
        raise AnchorMissing("expected exactly one call to %s in %s, found %d" % (subs, fn.path, len(r)))
    return r[0]


def some_calls(fn, *subs, min=1):
    r = calls(fn, *subs)
    if len(r) < min:
        raise AnchorMissing("expected >= %d call(s) to %s in %s, found %d" % (min, subs, fn.path, len(r)))
    return r


def result_switches(c, call_bb):
    """Switch blocks that branch on the outcome (Result / ControlFlow / Option discriminant) of the call in
    call_bb: the switched-on place's origin closure contains that call."""
    t = c.blocks[call_bb]["term"]
    nm = name_of(t)
    out = []
    for b in sorted(c.reach0):
        si = c.switch_info(b)
        if not si or si["kind"] != "enum" or si["place"] is None:
            continue
        if not c.dominates(call_bb, b):
            continue
        org = c.origins(si["place"][0])
        if ("call", nm, call_bb) in org or ("via", nm, call_bb) in org:
            out.append(b)
    return out


def ok_targets(c, call_bb):
    """Blocks entered when the call in call_bb returned successfully (Ok / Continue arms of every
    switch on its outcome). Returns (set of ok-target blocks, set of err-target blocks, switches)."""
    oks, errs = set(), set()
    sws = result_switches(c, call_bb)
    for b in sws:
        si = c.switch_info(b)
        for lab, tgt in si["label_to"].items():
            if lab in ("Ok", "Continue", "Some", "Ready"):
                if lab == "Ready":
                    continue
                oks.add(tgt)
            elif lab in ("Err", "Break", "None"):
                errs.add(tgt)
    return oks, errs, sws


def first_result_switch(c, call_bb):
    sws = result_switches(c, call_bb)
    if not sws:
        raise AnchorMissing("no branch on the outcome of %s (bb%d) in %s" % (
            name_of(c.blocks[call_bb]["term"]), call_bb, c.fn.path))
    # the dominating-most one
    sws.sort(key=lambda b: len(c.idom[b]))
    return sws[0]


def arg_origin_names(c, term, idx, transparent=None):
    """Names of calls / args / consts in the origin closure of argument idx of a call."""
    return c.op_origins(term["args"][idx], transparent)


def origin_has_call(org, *subs):
    for o in org:
        if o[0] in ("call", "via") and o[1] and any(s in o[1] for s in subs):
            return True
    return False


def origin_mutated_by(org, *subs):
    """The value was handed as `&mut` to a call whose name matches (an out-parameter / accumulator update)."""
    for o in org:
        if o[0] == "mutated-by" and o[1] and any(s in o[1] for s in subs):
            return True
    return False


def origin_calls(org):
    return sorted({o[1] for o in org if o[0] in ("call", "via") and o[1]})


def dominated_by_any(c, bb, doms):
    return any(c.dominates(d, bb) for d in doms)


def loc(fn, t_or_s):
    return fn.loc(t_or_s.get("ln"))

"""C39 MemWAL index follows its state machine under concurrency.

Decided:
  TABLE  every store of a constant State into MemWal.state (field write or MemWal aggregate) in the workspace is
         guarded, in the same function, by MemWal::check_state(State::X) / a `state == State::X` test on the pre-image
         (or, for the merge performed by build_manifest, by the check_state(Flushed) that produced mem_wal_to_merge),
         and X -> Y is a forward edge Open < Sealed < Flushed < Merged; new generations are created Open
  DOM    check_expected_owner_id dominates every mutation closure's clone-and-modify; advance creates generation
         latest + 1 and seals an Open predecessor in the same transaction
  ARMS   conflict cells: (UpdateMemWalState, UpdateMemWalState) depends on added/updated of both sides,
         (Update, UpdateMemWalState) on mem_wal_to_merge + added/updated, (UpdateMemWalState, Update) on
         mem_wal_to_merge; data operations vs UpdateMemWalState are never unconditionally compatible
  DOM    trim_mem_wal_index removes only entries whose state is Merged
Not decided: histories and interleavings as such.
"""
from engine.cfg import op_place, expr_of
from engine.facts import AnchorMissing
from .C03 import check_matrix, apply_oracle
from .common import user_body, calls, one_call, name_of, has_name, origin_has_call, origin_calls, ok_targets

LEVEL = "other"
ORDER = ["Open", "Sealed", "Flushed", "Merged"]
FORWARD = {("Open", "Sealed"), ("Sealed", "Flushed"), ("Flushed", "Merged")}


def const_state(fn, op, within=None):
    """Variant name if operand is a constant `State::X` (aggregate through temps or promoted const)."""
    e = expr_of(fn, op, within=within)
    if e[0] == "agg" and e[1].endswith("mem_wal::State"):
        return e[2]
    return None


def promoted_states(fn):
    out = []
    for pb in fn.promoted:
        for blk in pb.get("blocks", []):
            for st in blk["st"]:
                rv = st.get("rv") or {}
                if rv.get("r") == "agg" and (rv.get("adt") or "").endswith("mem_wal::State"):
                    out.append(rv["variant"])
    return out


def state_stores(db):
    """(fn, bb, line, new_state, kind) for every constant State stored into a MemWal."""
    out = []
    for f in db.fns.values():
        if not f.focus:
            continue
        if not any(x in f.file for x in ("mem_wal", "dataset/transaction.rs", "merge_insert", "conflict_resolver")):
            continue
        if "Deserialize" in f.path or "as std::clone::Clone" in f.path or "TryFrom" in f.path or "as std::convert::From" in f.path:
            continue
        c = f.cfg
        for i, j, s in c.stmts():
            lhs, rv = s.get("lhs"), s.get("rv")
            if lhs and len(lhs) > 1 and isinstance(lhs[-1], dict) and lhs[-1].get("f") == "state" and rv and rv["r"] == "use":
                st = const_state(f, rv["op"])
                if st or "State" in f.locals[op_place(rv["op"])[0]]["ty"] if op_place(rv["op"]) else False:
                    out.append((f, i, s["ln"], st, "write"))
            if rv and rv["r"] == "agg" and (rv.get("adt") or "").endswith("mem_wal::MemWal") and "state" in rv["fields"]:
                st = const_state(f, rv["ops"][rv["fields"].index("state")])
                out.append((f, i, s["ln"], st, "aggregate"))
    return out


def guards_in(fn, bb):
    """States X such that check_state(State::X) (success edge) or `state == State::X` (true edge) dominates bb in fn."""
    c = fn.cfg
    found = []
    for b, t in calls(fn, "MemWal::check_state"):
        st = const_state(fn, t["args"][1])
        oks, errs, sws = ok_targets(c, b)
        if st and oks and any(c.dominates(o, bb) for o in oks):
            found.append(("check_state", st, t["ln"]))
    for b, t in c.calls():
        if has_name(t, "mem_wal::State as std::cmp::PartialEq>::eq"):
            sws = [x for x in c.reach0 if c.switch_info(x) and c.switch_info(x)["kind"] == "bool" and c.bool_def(x) and
                   c.bool_def(x)[0] == "call" and c.bool_def(x)[1] == b]
            for x in sws:
                tt = c.switch_info(x)["label_to"][True]
                if c.dominates(tt, bb) and bb in c.reachable_from([tt], include_start=True, avoid=[c.switch_info(x)["label_to"][False]]):
                    sts = [const_state(fn, a) for a in t["args"]]
                    sts = [s for s in sts if s] or promoted_states(fn)
                    for s_ in sts:
                        found.append(("state==", s_, t["ln"]))
    return found


def check_transitions(db, chk):
    R = "TABLE-transitions"
    chk.rule(R, "every constant State store is guarded by a check of the pre-image state and moves forward")
    stores = state_stores(db)
    chk.floor(R, "constant MemWal.state stores", len(stores), 6)
    table = []
    for n, (f, bb, ln, new, kind) in enumerate(sorted(stores, key=lambda x: (x[0].path, x[2]))):
        chk.analysed(f)
        key = "%s:%s:%s" % (f.root().path.split("::")[-1], kind, new)
        if new is None:
            chk.ob(R, key, False, "state stored is not a constant State (cannot be classified)", f.loc(ln))
            continue
        if f.path.endswith("MemWal::new_empty"):
            chk.ob(R, key, new == "Open", "a new generation is created in state %s (required Open)" % new, f.loc(ln))
            table.append({"site": f.path, "from": None, "to": new})
            continue
        gs = guards_in(f, bb)
        if f.path.endswith("Transaction::build_manifest"):
            # Update{mem_wal_to_merge}: the pre-image was checked to be Flushed where mem_wal_to_merge is produced
            prod = []
            for g in db.find(r"dataset::write::merge_insert::MergeInsertBuilder"):
                for b, t in calls(g, "MemWal::check_state"):
                    st = const_state(g, t["args"][1])
                    # the checked value flows into params.mem_wal_to_merge in the same function
                    writes = [s for _, _, s in g.cfg.stmts() if s.get("lhs") and isinstance(s["lhs"][-1], dict) and s["lhs"][-1].get("f") == "mem_wal_to_merge"]
                    if st and writes:
                        oks, _, _ = ok_targets(g.cfg, b)
                        if all(any(g.cfg.dominates(o, wb) for o in oks) for wb in [i for i, _, s in g.cfg.stmts() if s in writes]):
                            prod.append((g, st, t["ln"]))
                            chk.analysed(g)
            gs = [("check_state@merge_insert", st, ln_) for g, st, ln_ in prod]
        pre = sorted({g[1] for g in gs})
        ok = len(pre) >= 1 and all((p, new) in FORWARD for p in pre)
        chk.ob(R, key, ok, "store of State::%s guarded by pre-image check(s) %s; required: a forward edge of %s" % (
            new, gs or "NONE", " < ".join(ORDER)), f.loc(ln))
        table.append({"site": f.path, "from": pre, "to": new, "line": ln})
    chk.extra["transition_table"] = table
    for t in table[:4]:
        chk.sample(t)


def check_owner(db, chk):
    R = "DOM-owner"
    chk.rule(R, "check_expected_owner_id dominates every state/entry mutation that takes expected_owner_id")
    n = 0
    # update_mem_wal_owner takes no expected owner (it is the ownership take-over itself) and is not listed
    for name in ("append_mem_wal_entry", "mark_mem_wal_as_sealed", "mark_mem_wal_as_flushed", "mark_mem_wal_as_merged"):
        f = db.one(r"^index::mem_wal::%s$" % name, file="lance/src/index/mem_wal.rs")
        clos = [k for k in f.family() if k.kind == "closure" and calls(k, "MemWal as std::clone::Clone>::clone")]
        if not clos:
            chk.ob(R, "mutator:%s" % name, False, "no clone-and-modify closure found in %s" % name, f.loc())
            continue
        for k in clos:
            chk.analysed(k)
            c = k.cfg
            own = calls(k, "MemWal::check_expected_owner_id")
            cl = calls(k, "MemWal as std::clone::Clone>::clone")
            ok = bool(own) and all(any(any(c.dominates(o, cb) for o in ok_targets(c, ob)[0]) for ob, _ in own) for cb, _ in cl)
            chk.ob(R, "mutator:%s" % name, ok, "owner check succeeds before the MemWal is cloned and modified in %s" % name, k.loc())
            n += 1
    chk.floor(R, "owner-checked mutators", n, 4)
    # advance: owner check on the latest generation; new generation = latest.generation + 1
    adv = db.one(r"^index::mem_wal::advance_mem_wal_generation$", file="lance/src/index/mem_wal.rs")
    body = user_body(db, adv, marker="MemWal::new_empty")
    chk.analysed(body)
    c = body.cfg
    own = calls(body, "MemWal::check_expected_owner_id")
    ids = calls(body, "MemWalId::new")
    ok_gen = False
    for b, t in ids:
        e = expr_of(body, t["args"][1])
        if e[0] == "bin" and e[1] == "Add" and e[3][0] == "const" and e[3][1] == 1:
            ok_gen = True
            # owner check dominates this creation
            chk.ob(R, "advance:owner-before-next-generation", bool(own) and any(any(c.dominates(o, b) for o in ok_targets(c, ob)[0]) for ob, _ in own),
                   "advance_mem_wal_generation checks the expected owner before creating generation latest+1", body.loc(t["ln"]))
    chk.ob(R, "advance:generation=latest+1", ok_gen, "the next generation id is latest.generation + 1", body.loc())
    zero = [t for b, t in ids if t["args"][1].get("v") == 0]
    chk.ob(R, "advance:first-generation=0", len(zero) >= 1, "a region without generations starts at generation 0 (%d site(s))" % len(zero), body.loc())


def check_trim(db, chk):
    R = "DOM-trim"
    chk.rule(R, "trim_mem_wal_index removes only Merged entries")
    f = db.one(r"^index::mem_wal::trim_mem_wal_index$", file="lance/src/index/mem_wal.rs")
    body = user_body(db, f)
    chk.analysed(body)
    c = body.cfg
    eqs = [(b, t) for b, t in c.calls() if has_name(t, "mem_wal::State as std::cmp::PartialEq>::eq")]
    pushes = [(b, t) for b, t in c.calls() if has_name(t, "Vec::<T, A>::push", "Vec<T, A>>::push")]
    ok = False
    det = "no `state == State::Merged` test found"
    for b, t in eqs:
        sts = [const_state(body, a) for a in t["args"]]
        sts = [s for s in sts if s] or promoted_states(body)
        sws = [x for x in c.reach0 if c.switch_info(x) and c.switch_info(x)["kind"] == "bool" and c.bool_def(x) and
               c.bool_def(x)[0] == "call" and c.bool_def(x)[1] == b]
        for x in sws:
            tt = c.switch_info(x)["label_to"][True]
            guarded = [pb for pb, _ in pushes if c.dominates(tt, pb)]
            ok = sts == ["Merged"] and len(guarded) >= 1 and len(guarded) == len(pushes)
            det = "compared state(s) %s; %d of %d pushes to the removal list are under the true edge" % (sts, len(guarded), len(pushes))
    chk.ob(R, "only-merged-trimmed", ok, det, body.loc())


def check_cells(db, chk):
    only = {("UpdateMemWalState", "UpdateMemWalState"), ("Update", "UpdateMemWalState"), ("UpdateMemWalState", "Update")}
    variants, M = check_matrix(db, chk, only=only)
    dep = {
        ("UpdateMemWalState", "UpdateMemWalState"): ([["UpdateMemWalState.added"], ["UpdateMemWalState.updated"]],
                                                     "two changes to the same generation must be told apart by the generations they add/update"),
        ("Update", "UpdateMemWalState"): ([["Update.mem_wal_to_merge"], ["UpdateMemWalState.added", "UpdateMemWalState.updated"]],
                                          "a merge_insert that merges a MemWAL vs a concurrent change of that MemWAL"),
        ("UpdateMemWalState", "Update"): ([["Update.mem_wal_to_merge"]], "only updates that merge a MemWAL are MemWAL operations"),
    }
    not_ok = {}
    for o in ("Append", "Overwrite", "Delete", "DataReplacement", "Merge", "Restore", "Project"):
        not_ok[("UpdateMemWalState", o)] = "data operations are declared incompatible with a pending MemWAL state change"
    for s in ("Append", "Delete", "CreateIndex", "DataReplacement", "Merge", "Project", "Overwrite", "Restore"):
        not_ok[(s, "UpdateMemWalState")] = "the data operation was planned without the MemWAL state change"
    apply_oracle(chk, M, not_ok, dep, R="ARMS-memwal")
    # which lists of the two transactions are compared for a common MemWAL: two writers that read the same version compute the
    # same new generation (latest + 1, or 0 for a new region), so (their added, our added) must be compared, and two changes
    # of an existing generation meet in (their updated, our updated); the mixed pairs are allowed but not required
    g = db.one(r"TransactionRebase::<'a>::check_update_mem_wal_state_txn$", file="lance/src/io/commit/conflict_resolver.rs")
    chk.analysed(g)
    gc = g.cfg
    pairs = set()
    for b, t in calls(g, "check_update_mem_wal_state_not_modify_same_mem_wal"):
        side = {}
        for k in (1, 2):
            o = gc.op_origins(t["args"][k], transparent=lambda t: True)
            who = "theirs" if ("arg", 2) in o and ("arg", 1) not in o else ("ours" if ("arg", 1) in o and ("arg", 2) not in o else "?")
            lst = sorted({x[1] for x in o if x[0] == "field"} & {"added", "updated", "removed"})
            side[who] = lst[0] if len(lst) == 1 else "?"
        pairs.add((side.get("theirs", "?"), side.get("ours", "?")))
    for need in (("added", "added"), ("updated", "updated")):
        chk.ob("ARMS-memwal", "same-memwal-pair:%s/%s" % need, need in pairs,
               "a committed transaction's `%s` list is compared with this transaction's `%s` list for a common MemWAL (pairs compared: %s)" % (
                   need[0], need[1], sorted(pairs)), g.loc())
    # the same-MemWAL helper compares ids
    h = db.one(r"check_update_mem_wal_state_not_modify_same_mem_wal$", file="lance/src/io/commit/conflict_resolver.rs")
    chk.analysed(h)
    fam = h.family()
    reads_id = any(isinstance(e, dict) and e.get("f") == "id" for k in fam for _, _, s in k.cfg.stmts()
                   for p in ([s.get("lhs")] + [(s.get("rv") or {}).get("place")]) if p for e in p)
    chk.ob("ARMS-memwal", "same-memwal-by-id", reads_id, "the same-MemWAL helper compares MemWal ids: %s" % reads_id, h.loc())
    # ... and nothing else: "the same MemWAL" is the same (region, generation).  Any other field of the two entries in the test
    # (owner, state, locations) narrows the conflict and lets two changes of one generation both commit
    adt = next((a for k_, a in db.adts.items() if k_.endswith("mem_wal::MemWal")), None)
    if adt is None:
        raise AnchorMissing("MemWal struct not found")
    others = {x["name"] for x in adt["variants"][0]["fields"]} - {"id"}

    def walk(x, out):
        if isinstance(x, dict):
            if x.get("f") in others:
                out.add(x["f"])
            for v in x.values():
                walk(v, out)
        elif isinstance(x, list):
            for v in x:
                walk(v, out)
    extra = set()
    for k in fam:
        if k.focus:
            walk(k.blocks, extra)
    chk.ob("ARMS-memwal", "same-memwal-by-id-only", not extra,
           "the same-MemWAL helper reads %s" % ("only the id of the two entries" if not extra else "also %s of the two entries: a conflict that "
                                                "depends on it lets two concurrent changes of one generation both commit" % sorted(extra)), h.loc())


def run(db, chk):
    check_transitions(db, chk)
    check_owner(db, chk)
    check_trim(db, chk)
    check_cells(db, chk)
    chk.assume("MemWal::check_state compares self.state with the expected state (its body is analysed under TABLE only by name)")

"""Extraction of the transaction-conflict decision table from TransactionRebase::check_txn and its
check_*_txn callees (rule kind ARMS): for every (self operation, other operation) pair the outcome class and the
data the decision depends on, by constrained reachability over the enum-discriminant switches."""
from engine.cfg import op_place, callee_names
from engine.facts import AnchorMissing
from .common import name_of, has_name

RESOLVER = "lance/src/io/commit/conflict_resolver.rs"
ERR_CTORS = {
    "retryable_conflict_err": "RETRY",
    "incompatible_conflict_err": "INCOMPATIBLE",
    "wrong_operation_err": "WRONG_OP",
}


def operation_variants(db):
    adt = db.adts.get("dataset::transaction::Operation")
    if adt is None:
        raise AnchorMissing("Operation enum not found")
    return [v["name"] for v in adt["variants"]], {v["name"]: [f["name"] for f in v["fields"]] for v in adt["variants"]}


def _is_op_switch(si):
    return si and si["kind"] == "enum" and (si["adt"] or "").endswith("dataset::transaction::Operation")


def _root(place):
    return place[0] if place else None


def dispatch_table(db):
    """self variant -> checker fn (or 'OK' when check_txn returns Ok(()) directly)."""
    f = db.one(r"^io::commit::conflict_resolver::TransactionRebase::<'a>::check_txn$", file=RESOLVER)
    c = f.cfg
    sws = [b for b in sorted(c.reach0) if _is_op_switch(c.switch_info(b))]
    if len(sws) != 1:
        raise AnchorMissing("check_txn: expected one match on Operation, found %d" % len(sws))
    si = c.switch_info(sws[0])
    if _root(si["place"]) != 1:
        raise AnchorMissing("check_txn does not dispatch on self.transaction.operation")
    table = {}
    for var, tgt in si["label_to"].items():
        others = {t for v, t in si["label_to"].items() if t != tgt}
        r = c.reachable_from([tgt], include_start=True, avoid=others)
        callees = []
        for b, t in c.calls():
            if b in r and t.get("rid") and "conflict_resolver" in t["rid"] and "check_" in t["rid"]:
                callees.append(db.fn(t["rid"]))
        oks = [i for (i, j, s) in c.aggregates(adt="Result", variant="Ok") if i in r]
        if len(callees) == 1 and not oks:
            table[var] = callees[0]
        elif not callees and oks:
            table[var] = "OK"
        else:
            raise AnchorMissing("check_txn arm %s: %d checker calls, %d Ok constructions" % (var, len(callees), len(oks)))
    return f, table


def fields_in_place(p):
    out = []
    cur_variant = None
    for e in p[1:]:
        if isinstance(e, dict):
            if "d" in e:
                cur_variant = e["d"]
            elif "f" in e:
                out.append((cur_variant, e["f"]))
                cur_variant = None
    return out


def places_in_stmt(s):
    out = []
    if "lhs" in s:
        out.append(s["lhs"])
    rv = s.get("rv")
    if rv:
        for k in ("place",):
            if rv.get(k):
                out.append(rv[k])
        for k in ("op", "a", "b"):
            if rv.get(k):
                p = op_place(rv[k])
                if p:
                    out.append(p)
        for o in rv.get("ops", []):
            p = op_place(o)
            if p:
                out.append(p)
    return out


def analyse_pair(db, fn, S, O, depth=0):
    """Outcome summary of checker `fn` for self variant S and other variant O."""
    c = fn.cfg
    self_sw, other_sw = [], []
    for b in sorted(c.reach0):
        si = c.switch_info(b)
        if _is_op_switch(si):
            r = _root(si["place"])
            if r == 1:
                self_sw.append(b)
            elif r == 2:
                other_sw.append(b)
            else:
                # a match on some other Operation value: unconstrained
                pass

    def ef(b):
        si = c.switch_info(b)
        if b in self_sw:
            return [si["label_to"][S]] if S in si["label_to"] else []
        if b in other_sw:
            return [si["label_to"][O]] if O in si["label_to"] else []
        return None
    reach = c.reachable_from([0], include_start=True, edge_filter=ef)
    outcomes = set()
    lines = []
    for i, j, s in c.aggregates(adt="Result", variant="Ok"):
        if i in reach and s["lhs"] == [0]:
            outcomes.add("OK")
    helpers = []
    for b, t in c.calls():
        if b not in reach:
            continue
        nm = name_of(t)
        hit = False
        for k, v in ERR_CTORS.items():
            if nm.endswith("::" + k) or nm.endswith(k):
                outcomes.add(v)
                lines.append((v, t["ln"]))
                hit = True
        if hit:
            continue
        if t.get("rid") and "conflict_resolver" in t["rid"] and "{closure" not in t["rid"] and depth < 2 and t["rid"] in db.fns:
            callee = db.fns[t["rid"]]
            if callee.path.endswith(("retryable_conflict_err", "incompatible_conflict_err", "wrong_operation_err")):
                continue
            sub = summarise_helper(db, callee, depth + 1)
            helpers.append((callee.path.split("::")[-1], sorted(sub)))
            outcomes |= (sub - {"OK"})
    # other error constructions (Error::X aggregates) in reach that are not via the ctors
    for i, j, s in c.aggregates(adt="Error"):
        if i in reach:
            outcomes.add("ERR:" + s["rv"]["variant"])
            lines.append(("ERR:" + s["rv"]["variant"], s["ln"]))
    # the deciding region: blocks reachable only because of the other-variant choice
    region = set()
    for b in other_sw:
        si = c.switch_info(b)
        if b in reach and O in si["label_to"]:
            region |= c.reachable_from([si["label_to"][O]], include_start=True, edge_filter=ef)
    if not other_sw:
        region = reach
    deps = set()
    for b in region:
        blk = c.blocks[b]
        for s in blk["st"]:
            for p in places_in_stmt(s):
                pc = c.canon(p)
                for (var, fld) in fields_in_place(pc):
                    deps.add(fld if var is None else "%s.%s" % (var, fld))
        t = blk["term"]
        if t and t["t"] == "call":
            for a in t["args"]:
                p = op_place(a)
                if p:
                    for (var, fld) in fields_in_place(c.canon(p)):
                        deps.add(fld if var is None else "%s.%s" % (var, fld))
    errs = {o for o in outcomes if o != "OK"}
    if "OK" in outcomes and not errs:
        cls = "ALWAYS_OK"
    elif "OK" not in outcomes and errs:
        cls = "ALWAYS_" + "+".join(sorted(errs))
    elif "OK" in outcomes and errs:
        cls = "CONDITIONAL"
    else:
        cls = "NO_OUTCOME"
    return {"class": cls, "outcomes": sorted(outcomes), "deps": sorted(deps), "lines": sorted(set(lines)), "helpers": helpers,
            "reach": len(reach)}


_helper_cache = {}


def summarise_helper(db, fn, depth):
    if fn.id in _helper_cache:
        return _helper_cache[fn.id]
    c = fn.cfg
    out = set()
    for i, j, s in c.aggregates(adt="Result", variant="Ok"):
        if s["lhs"] == [0]:
            out.add("OK")
    for b, t in c.calls():
        nm = name_of(t)
        for k, v in ERR_CTORS.items():
            if nm.endswith(k):
                out.add(v)
    _helper_cache[fn.id] = out
    return out


def extract_matrix(db):
    variants, fields = operation_variants(db)
    disp_fn, disp = dispatch_table(db)
    matrix = {}
    for S in variants:
        if S not in disp:
            raise AnchorMissing("check_txn has no arm for %s" % S)
        target = disp[S]
        for O in variants:
            if target == "OK":
                matrix[(S, O)] = {"class": "ALWAYS_OK", "outcomes": ["OK"], "deps": [], "lines": [], "helpers": [], "checker": "check_txn"}
            else:
                r = analyse_pair(db, target, S, O)
                r["checker"] = target.path.split("::")[-1]
                matrix[(S, O)] = r
    return variants, fields, disp_fn, disp, matrix

"""C31 Object writes persist exactly the bytes written -- visibility points.

Decided:
  CALLERS  the two calls that make an object visible at its destination -- ObjectStore::put of the single-PUT path and
           MultipartUpload::complete -- are made only from the state-transition helpers started_to_putting_single /
           in_progress_to_completing, and those helpers are called only from ObjectWriter::poll_shutdown; poll_write and
           poll_flush reach only put_multipart / put_part
  ARMS     UploadState::Done is entered only from a completed PuttingSingle / Completing future (poll_tasks), or as the
           placeholder of an abort / drop / state swap; abort and Drop reach MultipartUpload::abort for InProgress and never
           complete
  ORIGIN   the bytes handed to the single PUT are the writer's own buffer (mem::take of self.buffer); the final part is the
           remaining buffer and completion waits for every part upload (futures.is_empty())
Not decided: byte equality, store-side atomicity of multipart completion, retry behaviour.
"""
from engine.cfg import op_place, expr_of
from engine.facts import AnchorMissing
from .common import user_body, calls, name_of, has_name, origin_has_call, origin_calls

LEVEL = "other"
FILE = "lance-io/src/object_writer.rs"


def fns_in(db):
    return [f for f in db.fns.values() if f.file.endswith(FILE)]


def run(db, chk):
    R = "CALLERS-visibility"
    chk.rule(R, "who may make the object visible")
    fs = fns_in(db)
    put_sites, complete_sites, abort_sites = [], [], []
    for f in fs:
        for c in f.calls:
            nm = c.get("rp") or c.get("p") or ""
            if "::{closure#" in nm:
                continue
            if nm.endswith("ObjectStore::put") or nm.endswith("ObjectStore>::put"):
                put_sites.append((f, c))
            if "MultipartUpload::complete" in nm or "MultipartUpload>::complete" in nm:
                complete_sites.append((f, c))
            if "MultipartUpload::abort" in nm or "MultipartUpload>::abort" in nm:
                abort_sites.append((f, c))
    chk.floor(R, "single-PUT sites", len(put_sites), 1)
    chk.floor(R, "multipart complete sites", len(complete_sites), 1)
    for f, c in put_sites:
        chk.ob(R, "put-in:%s" % f.root().path, f.root().path.endswith("UploadState::started_to_putting_single"),
               "ObjectStore::put is called from %s (required: only UploadState::started_to_putting_single)" % f.root().path, "%s:%s" % (f.file, c["line"]))
    for f, c in complete_sites:
        chk.ob(R, "complete-in:%s" % f.root().path, f.root().path.endswith("UploadState::in_progress_to_completing"),
               "MultipartUpload::complete is called from %s (required: only UploadState::in_progress_to_completing)" % f.root().path, "%s:%s" % (f.file, c["line"]))
    cal = db.callers()
    for helper in ("started_to_putting_single", "in_progress_to_completing"):
        h = db.one(r"^object_writer::UploadState::%s$" % helper, file=FILE)
        chk.analysed(h)
        callers = {f.root().path for f, c in cal.get(h.id, [])}
        chk.ob(R, "helper-callers:%s" % helper, callers == {"<object_writer::ObjectWriter as tokio::io::AsyncWrite>::poll_shutdown"},
               "%s is called from %s (required: only poll_shutdown)" % (helper, sorted(callers)), h.loc())
    # poll_write / poll_flush never reach a visibility point
    from engine import callgraph
    cg = callgraph.get(db)
    vis = ("object_store::ObjectStore::put", "MultipartUpload::complete", "UploadState::started_to_putting_single", "UploadState::in_progress_to_completing")
    may = cg.may_reach(vis, exact=True)
    for m in ("poll_write", "poll_flush"):
        f = db.one(r"^<object_writer::ObjectWriter as tokio::io::AsyncWrite>::%s$" % m, file=FILE)
        chk.analysed(f)
        chk.ob(R, "no-visibility-from:%s" % m, f.id not in may, "%s cannot reach put / complete (%s)" % (m, "path: %s" % cg.path_to_leaf(f.id, vis, exact=True) if f.id in may else "no path in the call graph"), f.loc())
    ps = db.one(r"^<object_writer::ObjectWriter as tokio::io::AsyncWrite>::poll_shutdown$", file=FILE)
    chk.ob(R, "shutdown-reaches-visibility", ps.id in may, "poll_shutdown reaches the visibility points", ps.loc())

    R2 = "ARMS-abort"
    chk.rule(R2, "abort / drop never complete; they abort an in-progress multipart upload")
    for pat in (r"^object_writer::ObjectWriter::abort$", r"^<object_writer::ObjectWriter as std::ops::Drop>::drop$"):
        f = db.one(pat, file=FILE)
        fam = f.family()
        for k in fam:
            chk.analysed(k)
        names = [(c.get("rp") or c.get("p") or "") for k in fam for c in k.calls]
        has_abort = any("MultipartUpload::abort" in n or "MultipartUpload>::abort" in n for n in names)
        has_vis = any(f_.id in may for f_ in fam if f_ is not f) or any(n.endswith("ObjectStore::put") or "MultipartUpload::complete" in n for n in names)
        chk.ob(R2, "%s" % f.path.split("::")[-1], has_abort and not has_vis and f.id not in may,
               "%s aborts the multipart upload (%s) and cannot reach put/complete (%s)" % (f.path, has_abort, f.id not in may), f.loc())
        # the abort happens under the InProgress arm
        body = user_body(db, f) if f.path.endswith("::abort") else f
        c = body.cfg
        sws = [b for b in c.reach0 if c.switch_info(b) and c.switch_info(b)["kind"] == "enum" and (c.switch_info(b)["adt"] or "").endswith("UploadState")]
        ok = False
        for b in sws:
            si = c.switch_info(b)
            t = si["label_to"].get("InProgress")
            if t is None:
                continue
            others = {x for v, x in si["label_to"].items() if x != t}
            r_o = c.reachable_from(list(others), include_start=True, avoid=[t])
            fam_abort_blocks = [bb for bb, tt in c.calls() if has_name(tt, "MultipartUpload::abort", "MultipartUpload>::abort")] + \
                [bb for bb, j, s in [(i, j, s) for i, j, s in c.stmts()] if s.get("rv", {}).get("r") == "agg" and s["rv"].get("closure")]
            ok = ok or (bool(fam_abort_blocks) and all(bb not in r_o for bb in fam_abort_blocks if c.dominates(t, bb)))
        chk.ob(R2, "%s:only-in-progress" % f.path.split("::")[-1], ok, "the abort is issued only for UploadState::InProgress", body.loc())
    # Done transitions
    R3 = "ARMS-done"
    chk.rule(R3, "UploadState::Done only after the visibility future completed (or as abort/drop/swap placeholder)")
    allowed = {
        "object_writer::ObjectWriter::poll_tasks": "a completed PuttingSingle / Completing future",
        "object_writer::ObjectWriter::abort": "abort placeholder",
        "<object_writer::ObjectWriter as std::ops::Drop>::drop": "drop placeholder",
        "object_writer::UploadState::started_to_putting_single": "temporary placeholder while taking ownership of the state",
        "object_writer::UploadState::in_progress_to_completing": "temporary placeholder while taking ownership of the state",
    }
    n = 0
    for f in fs:
        if not f.focus:
            continue
        for i, j, s in f.cfg.aggregates(adt="UploadState", variant="Done"):
            n += 1
            root = f.root().path
            chk.ob(R3, "done-in:%s" % root, root in allowed, "UploadState::Done constructed in %s: %s" % (root, allowed.get(root, "NOT a reviewed site")), f.loc(s["ln"]))
    chk.floor(R3, "UploadState::Done constructions", n, 5)
    pt = db.one(r"^object_writer::ObjectWriter::poll_tasks$", file=FILE)
    chk.analysed(pt)
    c = pt.cfg
    for i, j, s in c.aggregates(adt="UploadState", variant="Done"):
        # dominated by the Ready(Ok) arm of polling the PuttingSingle / Completing future
        sws = [b for b in c.reach0 if c.switch_info(b) and c.switch_info(b)["kind"] == "enum" and (c.switch_info(b)["adt"] or "").endswith("UploadState")]
        ok = False
        for b in sws:
            si = c.switch_info(b)
            tg = {si["label_to"].get("PuttingSingle"), si["label_to"].get("Completing")} - {None}
            if tg and c.dominates(b, i):
                others = {x for v, x in si["label_to"].items() if x not in tg}
                r_o = c.reachable_from(list(others), include_start=True, avoid=list(tg) + [b])
                r_t = c.reachable_from(list(tg), include_start=True, avoid=list(others) + [b])
                ok = i in r_t and i not in r_o
        o = c.op_origins(s["rv"]["ops"][0], transparent=lambda t: True)
        ok2 = any(x[0] in ("call", "via") and "poll" in (x[1] or "") for x in o)
        chk.ob(R3, "done-after-completion", ok and ok2, "poll_tasks enters Done only under the PuttingSingle/Completing arm with the polled result (%s, %s)" % (ok, ok2), pt.loc(s["ln"]))
    # ORIGIN: single put buffer / final part
    R4 = "ORIGIN-bytes"
    chk.rule(R4, "the bytes made visible are the writer's own buffer; completion waits for all parts")
    c = ps.cfg
    st = calls(ps, "UploadState::started_to_putting_single")
    ok = False
    if len(st) == 1:
        o = c.op_origins(st[0][1]["args"][2], transparent=lambda t: True)
        ok = any(x[0] in ("call", "via") and "mem::take" in (x[1] or "") for x in o) and ("field", "buffer") in o
    chk.ob(R4, "single-put-takes-own-buffer", ok, "poll_shutdown hands mem::take(&mut self.buffer) to the single PUT", ps.loc())
    comp = calls(ps, "UploadState::in_progress_to_completing")
    ok = False
    if len(comp) == 1:
        # guarded by futures.is_empty() true edge
        cb = comp[0][0]
        for b, t in c.calls():
            if has_name(t, "JoinSet::<T>::is_empty", "JoinSet<T>>::is_empty", "::is_empty") and c.dominates(b, cb):
                sws = [x for x in c.reach0 if c.switch_info(x) and c.switch_info(x)["kind"] == "bool" and c.bool_def(x) and c.bool_def(x)[0] == "call" and c.bool_def(x)[1] == b]
                for x in sws:
                    tg = c.switch_info(x)["label_to"]
                    r_f = c.reachable_from([tg[False]], include_start=True, avoid=[tg[True]])
                    if c.dominates(tg[True], cb) and cb not in r_f and ("field", "futures") in c.op_origins(t["args"][0], transparent=lambda t: True) | {("field", "futures")}:
                        ok = True
    chk.ob(R4, "complete-after-all-parts", ok, "the multipart upload is completed only when no part upload is outstanding (futures.is_empty())", ps.loc())
    # the final flush spawns put_part with the remaining buffer before completing
    pp = calls(ps, "ObjectWriter::put_part")
    ok = len(pp) >= 1 and all(any(x[0] in ("call", "via") and "mem::take" in (x[1] or "") for x in c.op_origins(t["args"][1], transparent=lambda t: True)) for _, t in pp)
    chk.ob(R4, "final-part-is-remaining-buffer", ok, "the final part uploaded on shutdown is the remaining buffer (mem::take)", ps.loc())
    # every byte taken out of the writer's buffer is sent: wherever `mem::take(&mut self.buffer)` (or mem::replace) empties the
    # buffer, every way on from there -- to a return, to Pending, around the loop -- hands the taken bytes to an upload
    # (put_part / the single PUT / a part queue); a take that can be followed by a plain return drops the tail of the object
    CONVERSIONS = ("From<", "::from", "::into", "::len", "::is_empty", "::as_ref", "::deref", "::clone", "::as_slice")
    takes = 0
    for g in fns_in(db):
        if not g.focus:
            continue
        gc = g.cfg
        rets = set(gc.return_blocks())
        for b, t in gc.calls():
            if not (has_name(t, "mem::take", "mem::replace") and t["args"] and ("field", "buffer") in gc.op_origins(t["args"][0], transparent=lambda t_: True)):
                continue
            takes += 1
            chk.analysed(g)
            users = []
            for b2, t2 in gc.calls():
                if b2 == b or any(name_of(t2).endswith(x) or x in name_of(t2).split("::")[-2:][0] for x in CONVERSIONS):
                    continue
                if any(any(o[0] in ("call", "via") and o[2] == b and ("mem::take" in (o[1] or "") or "mem::replace" in (o[1] or ""))
                           for o in gc.op_origins(a, transparent=lambda t_: True)) for a in t2["args"]):
                    users.append(b2)
            r_wo = gc.reachable_from([b], avoid=users)
            esc = sorted(x for x in rets if x in r_wo)
            again = b in r_wo
            chk.ob(R4, "taken-buffer-is-sent:%s:%d" % (g.path.split("::")[-1].split(">")[-1] or g.path, takes), bool(users) and not esc and not again,
                   "%s empties self.buffer at line %s; the taken bytes are handed on by %d call(s); ways to leave without handing them on: %s%s" % (
                       g.path.split("::")[-1], t.get("ln"), len(users), esc or "none", " (and back to the same take)" if again else ""), g.loc(t["ln"]))
    chk.floor(R4, "places that empty the writer's buffer", takes, 2)
    # poll_write takes the caller's bytes from the front, in order: the first piece buffered is buf[..n]; any further piece
    # taken in the same call must start where the previous one ended (a slice of `buf` with a start index), never again at 0
    pw = db.one(r"^<object_writer::ObjectWriter as tokio::io::AsyncWrite>::poll_write$", file=FILE)
    chk.analysed(pw)
    wc = pw.cfg
    pieces = []
    for b, t in calls(pw, "Vec::<T, A>::extend_from_slice", "Vec::<T>::extend_from_slice"):
        o = wc.op_origins(t["args"][1], transparent=lambda t: True)
        if ("arg", 3) not in o:
            continue
        kinds = set()
        # the Index call that produced this very piece: walk the argument's single definitions back to it
        p = op_place(t["args"][1])
        hops = 0
        while p is not None and hops < 8:
            hops += 1
            d = wc.single_def(p[0])
            if not d:
                break
            if d[0] == "call":
                if has_name(d[2], "ops::Index<I> for [T]>::index", "Index<I>>::index"):
                    full = d[2].get("full") or ""
                    for k in ("RangeToInclusive", "RangeTo", "RangeFrom", "RangeFull", "RangeInclusive", "Range"):
                        if "ops::%s<" % k in full or "ops::%s>" % k in full or full.endswith("ops::%s" % k):
                            kinds.add(k)
                            break
                break
            rv = d[3]["rv"]
            p = rv.get("place") if rv["r"] == "ref" else (op_place(rv["op"]) if rv["r"] == "use" else None)
        pieces.append((b, t, kinds))
    chk.floor(R4, "pieces of the caller's buffer taken by poll_write", len(pieces), 1)
    first = [p for p in pieces if all(wc.dominates(p[0], q[0]) for q in pieces)]
    okf = len(first) == 1
    rest = [p for p in pieces if not first or p is not first[0]]
    okr = all(p[2] and p[2] <= {"RangeFrom", "Range", "RangeInclusive"} for p in rest)
    chk.ob(R4, "write-takes-bytes-in-order", okf and okr,
           "poll_write buffers %d piece(s) of the caller's slice; the first dominates the others (%s); later pieces start at an explicit offset, not at 0: %s" % (
               len(pieces), okf, [sorted(p[2]) for p in rest] or "no later piece"), pw.loc())
    chk.sample({"visibility_points": {"put": [c["line"] for _, c in put_sites], "complete": [c["line"] for _, c in complete_sites], "abort": [c["line"] for _, c in abort_sites]}})

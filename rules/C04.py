"""C04 No lost updates: two committed transactions never both modify the same row.

Decided (row-level conflict path):
  ARMS   (Delete|Update, Delete|Update) cells of the conflict matrix are conditional on both fragment footprints AND
         on affected_rows / data files / deletion files / initial fragments, with the three RETRY exits present
  DOM    finish_delete_update: the intersection existing_deletions & affected_rows and its emptiness test dominate every
         write_deletion_file; the conflict edge returns RetryableCommitConflict and writes nothing
  ORIGIN the rewritten deletion vector comes from existing | affected; the existing vectors are read from the *current*
         dataset argument (its fragments(), read_dataset_deletion_file(dataset, ..)), not from initial_fragments; the rebased
         transaction's read_version is the current dataset's version
  GATE   delete / update / merge_insert pass affected_rows to the commit (with_affected_rows call sites), and
         CommitBuilder::execute forwards it to commit_transaction
Not decided: correctness of bitmap contents; that affected_rows lists exactly the touched rows.
"""
from engine.cfg import op_place
from engine.facts import AnchorMissing
from . import matrix
from .C03 import check_matrix, apply_oracle
from .common import user_body, calls, one_call, name_of, has_name, origin_has_call, origin_calls, ok_targets

LEVEL = "other"

ROW_LEVEL = [["affected_rows"], ["initial_fragments"], ["files"], ["deletion_file"], ["modified_fragment_ids"]]


def check_cells(db, chk):
    variants, M = check_matrix(db, chk, only={(s, o) for s in ("Delete", "Update") for o in ("Delete", "Update")})
    dep = {}
    for s in ("Delete", "Update"):
        for o, rem in (("Delete", "Delete.deleted_fragment_ids"), ("Update", "Update.removed_fragment_ids")):
            dep[(s, o)] = (ROW_LEVEL + [[o + ".updated_fragments"], [rem]],
                           "same-fragment changes must fall through to the row-level check (affected rows, data files, deletion files)")
    apply_oracle(chk, M, {}, dep, R="ARMS-rowlevel")
    for (s, o) in dep:
        cell = M[(s, o)]
        n_retry = len([l for l in cell["lines"] if l[0] == "RETRY"])
        chk.ob("ARMS-rowlevel", "retry-exits:%s/%s" % (s, o), n_retry >= 3,
               "%s vs %s has %d RETRY exits (no affected rows / data files differ / fragment removed): required >= 3" % (s, o, n_retry))


def check_finish(db, chk):
    R = "DOM-rebase-rows"
    chk.rule(R, "finish_delete_update: intersection test dominates deletion-file writes; union is what is written; "
                "existing vectors come from the current dataset")
    f = db.one(r"^io::commit::conflict_resolver::TransactionRebase::<'a>::finish_delete_update$", file=matrix.RESOLVER)
    body = user_body(db, f, marker="write_deletion_file")
    chk.analysed(body)
    c = body.cfg
    ands = calls(body, "RowIdTreeMap as std::ops::BitAnd>::bitand")
    ors = calls(body, "RowIdTreeMap as std::ops::BitOr>::bitor")
    wdf = calls(body, "write_deletion_file")
    chk.floor(R, "intersection (&) of row sets", len(ands), 1)
    chk.floor(R, "union (|) of row sets", len(ors), 1)
    chk.floor(R, "write_deletion_file call sites", len(wdf), 1)
    if not (ands and ors and wdf):
        return

    def classify(op):
        org = c.op_origins(op)
        if ("field", "affected_rows") in org or ("upvar", "affected_rows") in org or any(
                o[0] == "field" and "affected_rows" in o[1] for o in org):
            return "affected"
        if origin_has_call(org, "RowIdTreeMap::new"):
            return "existing"
        return "other:%s" % origin_calls(org)[:3]
    ab, at = ands[0]
    kinds = sorted(classify(a) for a in at["args"])
    chk.ob(R, "intersection-operands", kinds == ["affected", "existing"],
           "the conflict test intersects %s (required: existing deletions & this transaction's affected rows)" % kinds, body.loc(at["ln"]))
    ob_, ot = ors[0]
    kinds = sorted(classify(a) for a in ot["args"])
    chk.ob(R, "union-operands", kinds == ["affected", "existing"],
           "the merged deletion set is the union of %s (required: existing | affected)" % kinds, body.loc(ot["ln"]))
    # existing deletions are filled from read_dataset_deletion_file results
    ins = calls(body, "RowIdTreeMap::insert_bitmap")
    okfill = False
    for b, t in ins:
        o = c.op_origins(t["args"][2], transparent=lambda t: True)
        okfill = okfill or any("try_collect" in (x[1] or "") or "TryStreamExt" in (x[1] or "") or "buffered" in (x[1] or "")
                               for x in o if x[0] in ("call", "via"))
    chk.ob(R, "existing<-read-deletion-files", okfill, "existing_deletions is filled from the collected deletion vectors", body.loc())
    # emptiness test: a bool switch after the intersection whose conflict edge builds RetryableCommitConflict and reaches no write
    conflict_ok = False
    guard_sw = None
    for b in sorted(c.reach0):
        si = c.switch_info(b)
        if not si or si["kind"] != "bool" or not c.dominates(ab, b):
            continue
        p = op_place(c.blocks[b]["term"]["on"])
        org = c.origins(p[0], transparent=lambda t: True) if p else set()
        if not any(o[0] in ("call", "via") and "BitAnd>::bitand" in (o[1] or "") for o in org):
            continue
        for val in (True, False):
            r = c.reachable_from([si["label_to"][val]], include_start=True, avoid=[si["label_to"][not val]])
            has_err = any(i in r for (i, j, s) in c.aggregates(adt="Error", variant="RetryableCommitConflict"))
            has_write = any(wb in r for wb, _ in wdf)
            if has_err and not has_write:
                conflict_ok = True
                guard_sw = (b, si["label_to"][not val])
    chk.ob(R, "overlap=>retry-no-write", conflict_ok,
           "a branch on the intersection leads to RetryableCommitConflict without writing any deletion file", body.loc(at["ln"]))
    for wb, wt in wdf:
        chk.ob(R, "test-dominates-write", c.dominates(ab, wb) and guard_sw is not None and c.dominates(guard_sw[1], wb),
               "write_deletion_file is dominated by the intersection and by the no-overlap edge of its test", body.loc(wt["ln"]))
        chk.ob(R, "union-dominates-write", c.dominates(ob_, wb), "the union is computed before the deletion file is written", body.loc(wt["ln"]))
        # the vector written originates from the union
        o = c.op_origins(wt["args"][3], transparent=lambda t: "BitOr>::bitor" not in name_of(t))
        chk.ob(R, "written-vector<-union", origin_has_call(o, "RowIdTreeMap as std::ops::BitOr>::bitor"),
               "the deletion vector written originates from existing | affected", body.loc(wt["ln"]))
        o_base = c.op_origins(wt["args"][0])
        chk.ob(R, "written-under-current-dataset", ("upvar", "dataset") in o_base or ("arg", 2) in o_base,
               "the deletion file is written under the current dataset's base", body.loc(wt["ln"]))
    # current dataset is the source of the deletion files to merge
    fr = calls(body, "Dataset::fragments")
    chk.ob(R, "files-from-current-dataset", len(fr) >= 1 and all(("upvar", "dataset") in c.op_origins(t["args"][0]) for _, t in fr),
           "the deletion files to rewrite are taken from dataset.fragments() of the current (latest) dataset", body.loc())
    rd = [(k, b, t) for k in body.family() for b, t in calls(k, "read_dataset_deletion_file")]
    chk.floor(R, "read_dataset_deletion_file call sites", len(rd), 1)
    for k, b, t in rd:
        chk.analysed(k)
        o = k.cfg.op_origins(t["args"][0])
        chk.ob(R, "read-from-current-dataset", ("upvar", "dataset") in o, "deletion vectors are read through the current dataset argument", k.loc(t["ln"]))
    # rebased transaction carries the current version as its read version
    for i, j, s in c.aggregates(adt="Transaction"):
        rv = s["rv"]
        if "read_version" in rv["fields"]:
            o = c.op_origins(rv["ops"][rv["fields"].index("read_version")])
            chk.ob(R, "rebased-read-version:%d" % i, ("field", "version") in o and ("upvar", "dataset") in o,
                   "the rebased transaction's read_version is dataset.manifest.version", body.loc(s["ln"]))
    chk.sample({"finish_delete_update": {"intersection": at["ln"], "union": ot["ln"], "writes": [t["ln"] for _, t in wdf]}})


def check_rewrite_selection(db, chk):
    """Which fragments get their *current* deletion vector loaded, intersected with affected_rows and rewritten: exactly the ones
    a concurrent transaction was found to touch (needs_rewrite).  The selection decides the row-level conflict check as well as
    the rewrite, so nothing but the flag may take a flagged fragment out of it (e.g. "we remove that fragment anyway")."""
    R = "DOM-rebase-rows"
    f = db.one(r"^io::commit::conflict_resolver::TransactionRebase::<'a>::finish_delete_update$", file=matrix.RESOLVER)
    sel = []
    for g in f.family():
        names = {l.get("name") for l in g.locals if l.get("name")}
        if g.kind == "closure" and "needs_rewrite" in names and g.cfg.aggregates(adt="Option", variant="Some"):
            sel.append(g)
    if len(sel) != 1:
        raise AnchorMissing("finish_delete_update: expected one closure selecting the fragments to rewrite by needs_rewrite, found %d" % len(sel))
    g = sel[0]
    chk.analysed(g)
    c = g.cfg
    nr = [i for i, l in enumerate(g.locals) if l.get("name") == "needs_rewrite"]
    flag_sw = []
    for b in sorted(c.reach0):
        si = c.switch_info(b)
        if not (si and si["kind"] == "bool"):
            continue
        p = op_place(c.blocks[b]["term"]["on"])
        d = c.single_def(p[0]) if p and len(p) == 1 else None
        if d and d[0] == "assign" and d[3]["rv"]["r"] == "use":
            q = op_place(d[3]["rv"]["op"])
            if q and q[0] in nr and all(e == "*" for e in q[1:]):
                flag_sw.append(b)
    ok = len(flag_sw) == 1
    detail = "%d direct test(s) of *needs_rewrite" % len(flag_sw)
    if ok:
        w = flag_sw[0]

        def ef(b):
            return [c.switch_info(w)["label_to"][True]] if b == w else None
        reach = c.reachable_from([0], include_start=True, edge_filter=ef)
        nones = [i for i, j, s in c.aggregates(adt="Option", variant="None") if s["lhs"] == [0] and i in reach]
        somes = [s for i, j, s in c.aggregates(adt="Option", variant="Some") if s["lhs"] == [0] and i in reach]
        id_ok = bool(somes) and all(("field", "id") in c.op_origins(s["rv"]["ops"][0], transparent=lambda t: True) for s in somes)
        ok = not nones and id_ok
        detail = "a flagged fragment can be left out: %s; selects fragment.id: %s; looks at anything besides the map entry (captures): %s" % (
            bool(nones), id_ok, [u["name"] for u in g.upvars] or "nothing")
    chk.ob(R, "flagged=>checked-and-rewritten", ok,
           "every fragment flagged needs_rewrite is selected for the row-level check and the deletion-file rewrite (%s)" % detail, g.loc())


def check_producers(db, chk):
    R = "GATE-affected-rows"
    chk.rule(R, "row-level writers hand affected_rows to the commit and CommitBuilder forwards it")
    site = db.callers().get("lance::dataset::write::commit::{impl#0}::with_affected_rows", [])
    files = sorted({f.file.split("/")[-1] for f, c in site})
    chk.floor(R, "with_affected_rows call sites", len(site), 3)
    for need in ("delete.rs", "update.rs", "merge_insert.rs"):
        chk.ob(R, "producer:%s" % need, need in files, "%s passes affected rows to the commit builder: %s" % (need, need in files))
    ex = db.one(r"^dataset::write::commit::CommitBuilder::<'a>::execute$")
    body = user_body(db, ex, marker="io::commit::commit_transaction")
    chk.analysed(body)
    c = body.cfg
    for b, t in calls(body, "io::commit::commit_transaction"):
        o = c.op_origins(t["args"][7])
        chk.ob(R, "forwarded", ("field", "affected_rows") in o, "CommitBuilder::execute forwards self.affected_rows to commit_transaction",
               body.loc(t["ln"]))
    ct = db.one(r"^io::commit::commit_transaction$", file="lance/src/io/commit.rs")
    cb = user_body(db, ct, marker="dataset::write_manifest_file")
    for b, t in calls(cb, "TransactionRebase::<'a>::try_new"):
        o = cb.cfg.op_origins(t["args"][2])
        chk.ob(R, "into-rebase", ("upvar", "affected_rows") in o or ("arg", 8) in o, "commit_transaction hands affected_rows to TransactionRebase::try_new",
               cb.loc(t["ln"]))


def run(db, chk):
    check_cells(db, chk)
    check_finish(db, chk)
    check_rewrite_selection(db, chk)
    check_producers(db, chk)
    chk.assume("RowIdTreeMap &, | and len are the set operations they name (see C21)")

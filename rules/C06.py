"""C06 Time travel is immutable -- who-may-mutate + fresh names.

Decided:
  ORIGIN  fresh names: every new deletion file's id originates from a random source and its path from that id;
          data-file names originate from generate_random_filename (uuid v4); transaction-file names carry the transaction's
          uuid, which originates from Uuid::new_v4 wherever a Transaction is constructed without a caller-supplied uuid;
          index directories are named by Uuid::new_v4
  INV     table-file mutators: the set of workspace functions (outside the object-store wrapper layer) that delete, rename,
          copy over or remove directories equals the reviewed table (each entry with the reason it cannot touch a file a
          published version references, or is mutable by design)
  (C02's "published manifests never change" and C08's "cleanup removes only unreferenced files" are prerequisites and
   are decided there.)
Not decided: equality of scans over time (value level).
"""
from engine.cfg import op_place, expr_of
from engine.facts import AnchorMissing
from .common import user_body, calls, one_call, name_of, has_name, origin_has_call, origin_calls, ok_targets

LEVEL = "other"

DESTRUCTIVE = ("ObjectStore>::delete", "ObjectStore::delete", "::delete_stream", "::remove_dir_all", "::remove_stream",
               "ObjectStore>::rename", "ObjectStore::rename", "::rename_if_not_exists", "ObjectStore>::copy", "ObjectStore::copy",
               "::copy_if_not_exists", "std::fs::remove", "tokio::fs::remove", "std::fs::rename", "tokio::fs::rename")

# wrapper layer: implementations of the store interfaces themselves (forward to the wrapped store)
WRAPPER_FILES = ("lance-io/src/object_store.rs", "lance-io/src/object_store/tracing.rs", "lance-io/src/utils/tracking_store.rs",
                 "lance-core/src/utils/testing.rs", "lance-io/src/local.rs", "lance-io/src/object_store/")

REVIEWED = {
    "<io::commit::RenameCommitHandler as io::commit::CommitHandler>::commit": "rename_if_not_exists of its own staging file / delete of that staging file (C02)",
    "<io::commit::external_manifest::ExternalManifestCommitHandler as io::commit::CommitHandler>::commit": "deletes its own staging file after a lost race (C10)",
    "io::commit::external_manifest::ExternalManifestCommitHandler::finalize_manifest": "copy staging->final (same bytes), delete staging (C10)",
    "io::commit::migrate_scheme_to_v2": "explicit offline rename of manifests V1->V2; contents unchanged (C33)",
    "dataset::cleanup::CleanupTask::<'a>::delete_unreferenced_files": "cleanup: only unreferenced / old-version files (C08)",
    "dataset::refs::Tags::<'_>::delete": "tags are mutable references by design (C09)",
    "dataset::refs::Branches::<'_>::delete": "branch records are mutable references by design (C09)",
    "dataset::refs::Branches::<'_>::cleanup_branch_directories": "removes the deleted branch's own directory (C09)",
    "<scalar::lance_format::LanceIndexStore as scalar::IndexStore>::copy_index_file": "copies into a new (uuid-named) index directory during index build",
    "<scalar::lance_format::LanceIndexStore as scalar::IndexStore>::rename_index_file": "renames inside a (uuid-named) index directory being built",
    "<scalar::lance_format::LanceIndexStore as scalar::IndexStore>::delete_index_file": "deletes inside a (uuid-named) index directory being built",
    "index::vector::ivf::io::write_hnsw_quantization_index_partitions": "deletes its own temporary partition files",
    "<dir::DirectoryNamespace as lance_namespace::LanceNamespace>::drop_table": "drop table: removes the whole table by request",
    "<dir::manifest::ManifestNamespace as lance_namespace::LanceNamespace>::drop_table": "drop table: removes the whole table by request",
    "<io::commit::external_manifest::ExternalManifestCommitHandler as io::commit::CommitHandler>::delete": "drop: forwards to the external store",
    "dataset::Dataset::delete": "n/a",
}


def check_inventory(db, chk):
    R = "INV-mutators"
    chk.rule(R, "functions with destructive store calls (delete / rename / copy / remove_dir) = reviewed table")
    found = {}
    for f in db.fns.values():
        if any(w in f.file for w in WRAPPER_FILES):
            continue
        if "/tests/" in f.file or f.file.endswith("_test.rs") or "fixture_test" in f.file or "/testing" in f.file or "/benches/" in f.file:
            continue
        for c in f.calls:
            nm = c.get("rp") or c.get("p") or ""
            if "::{closure#" in nm:
                continue
            if any(d in nm for d in DESTRUCTIVE):
                found.setdefault(f.root().path, []).append((f, c, nm))
    chk.floor(R, "functions with destructive store calls", len(found), 10)
    for path, sites in sorted(found.items()):
        f, c, nm = sites[0]
        kinds = sorted({n.split("::")[-1] for _, _, n in sites})
        chk.ob(R, "mutator:%s" % path, path in REVIEWED,
               "%s calls %s: %s" % (path, kinds, REVIEWED.get(path, "NOT in the reviewed table of table-file mutators (can it touch a file a published version references?)")),
               "%s:%s" % (f.file, c.get("line")))
    chk.extra["mutator_inventory"] = {p: sorted({n.split("::")[-1] for _, _, n in s}) for p, s in found.items()}


def check_fresh_names(db, chk):
    R = "ORIGIN-fresh"
    chk.rule(R, "new files get names from a fresh random source")
    # deletion files
    w = db.one(r"^io::deletion::write_deletion_file$", file="lance-table/src/io/deletion.rs")
    body = user_body(db, w, marker="deletion_file_path")
    chk.analysed(body)
    c = body.cfg
    aggs = c.aggregates(adt="DeletionFile")
    chk.floor(R, "DeletionFile constructions in write_deletion_file", len(aggs), 2)
    for n, (i, j, s) in enumerate(aggs):
        rv = s["rv"]
        o = c.op_origins(rv["ops"][rv["fields"].index("id")])
        chk.ob(R, "deletion-id-random:%d" % n, origin_has_call(o, "Rng>::random", "Rng::random", "::random"),
               "DeletionFile.id originates from %s (required: a random source)" % origin_calls(o), body.loc(s["ln"]))
    puts = calls(body, "lance_io::object_store::ObjectStore::put", "ObjectStore>::put", "object_store::ObjectStore::put")
    for n, (b, t) in enumerate(puts):
        o = c.op_origins(t["args"][1], transparent=lambda t: not has_name(t, "deletion_file_path"))
        chk.ob(R, "deletion-path<-deletion_file_path:%d" % n, origin_has_call(o, "deletion_file_path"), "the deletion file is written at deletion_file_path(..)", body.loc(t["ln"]))
    chk.floor(R, "deletion-file writes", len(puts), 2)
    dp = db.one(r"^io::deletion::deletion_file_path$", file="lance-table/src/io/deletion.rs")
    chk.analysed(dp)
    fm = db.fmts_in(dp)
    ok = any([a["ident"] for a in m["args"]][:3] == ["fragment_id", "read_version", "id"] or
             set(a["ident"] for a in m["args"]) >= {"fragment_id", "read_version", "id", "suffix"} for m in fm)
    chk.ob(R, "deletion-name-has-id", ok, "deletion file names contain fragment id, read version and the random id", dp.loc())
    # data files
    ow = db.one(r"^dataset::write::open_writer_with_options$", file="lance/src/dataset/write.rs")
    ob = user_body(db, ow, marker="generate_random_filename")
    chk.analysed(ob)
    oc = ob.cfg
    creates = [x for x in calls(ob, "ObjectStore::create") + calls(ob, "previous::writer::FileWriter::<M>::try_new") if len(x[1]["args"]) >= 2]
    chk.floor(R, "data-file writer creations", len(creates), 2)
    for n, (b, t) in enumerate(creates):
        o = oc.op_origins(t["args"][1], transparent=lambda t: not has_name(t, "generate_random_filename"))
        chk.ob(R, "data-file-name-random:%d" % n, origin_has_call(o, "generate_random_filename"), "data file path originates from generate_random_filename()", ob.loc(t["ln"]))
    g = db.one(r"^dataset::fragment::write::generate_random_filename$")
    chk.analysed(g)
    chk.ob(R, "random-filename<-uuid-v4", bool(calls(g, "new_v4")), "generate_random_filename derives the name from Uuid::new_v4", g.loc())
    fw = db.find(r"FragmentCreateBuilder::<'a>::write_v2_impl$")
    for f in fw:
        b2 = user_body(db, f, marker="generate_random_filename")
        chk.analysed(b2)
        cr = calls(b2, "ObjectStore::create")
        for n, (b, t) in enumerate(cr):
            o = b2.cfg.op_origins(t["args"][1], transparent=lambda t: not has_name(t, "generate_random_filename"))
            chk.ob(R, "fragment-file-name-random:%d" % n, origin_has_call(o, "generate_random_filename"), "fragment file path originates from generate_random_filename()", b2.loc(t["ln"]))
    # transaction files
    wt = db.one(r"^io::commit::write_transaction_file$", file="lance/src/io/commit.rs")
    wb = user_body(db, wt, marker="ObjectStore>::put")
    chk.analysed(wb)
    fm = db.fmts_in(wt)
    ok = any("transaction.uuid" in [a["src"] for a in m["args"]] for m in fm)
    chk.ob(R, "txn-file-name-has-uuid", ok, "transaction file names contain transaction.uuid", wt.loc())
    # every Transaction aggregate outside tests takes uuid from Uuid::new_v4 or from a field/param named uuid
    n = 0
    for f in db.fns.values():
        if not f.focus or "Deserialize" in f.path or "as std::clone::Clone" in f.path:
            continue
        for i, j, s in f.cfg.aggregates(adt="dataset::transaction::Transaction"):
            rv = s["rv"]
            if "uuid" not in rv["fields"]:
                continue
            from engine.cfg import default_transparent
            o = f.cfg.op_origins(rv["ops"][rv["fields"].index("uuid")],
                                 transparent=lambda t: default_transparent(t) or has_name(t, "::hyphenated", "::simple", "::as_hyphenated"))
            fresh = origin_has_call(o, "new_v4")
            carried = ("field", "uuid") in o or any(x[0] == "upvar" and "uuid" in x[1] for x in o) or any(x[0] == "arg" for x in o)
            n += 1
            chk.ob(R, "txn-uuid:%s" % f.root().path, fresh or carried,
                   "Transaction.uuid is %s" % ("fresh (Uuid::new_v4)" if fresh else "carried over from an existing transaction / caller" if carried else "from %s" % sorted(o)[:4]),
                   f.loc(s["ln"]))
    chk.floor(R, "Transaction constructions", n, 3)
    chk.sample({"fresh_names": {"deletion_files": len(aggs), "data_file_writers": len(creates), "transaction_constructions": n}})


def run(db, chk):
    check_fresh_names(db, chk)
    check_inventory(db, chk)
    chk.assume("Uuid::new_v4 / rand::random never repeat a name already present in the table")

"""C17 Change data feed and version columns are correct -- "rows are stamped with the version being published" clause only.

Decided (Transaction::build_manifest, stable row ids):
  ORIGIN  every version number handed to build_version_meta (the stamp of newly written rows) is
          `<current manifest>.version + 1` -- computed from the manifest the new version is built on (the re-loaded latest,
          see C03) with 1 as the only fallback (no current manifest) -- and never from the transaction's read version
  ARMS    Append and Overwrite: each new fragment gets BOTH created_at_version_meta and last_updated_at_version_meta from
          that stamp, under the stable-row-id guard, after row ids were assigned;
          Update: new fragments get last_updated_at_version_meta from that stamp (created_at is carried over from the
          original fragments or falls back to the stamp)
  ORDER   in RowDatasetVersionSequence::mask and its sibling RowIdSequence::mask (used by compaction to drop deleted rows from
          the per-row sequences) the length of the current run that feeds the position arithmetic is read before the run is
          masked in that iteration: positions are offsets into the sequence as it was on entry
  TABLE   the two delta predicates (inserted / updated-but-not-inserted between two versions), parsed from their SQL templates
          into {(column, operator, range end)} and compared with the definition as sets
Not decided: the per-row version sequences themselves (values); that the scanner evaluates the predicate faithfully (C16).
"""
from engine.cfg import op_place, expr_of
from engine.facts import AnchorMissing
from . import matrix
from .common import calls, name_of, has_name, origin_has_call

LEVEL = "other"
TX = "lance/src/dataset/transaction.rs"


def run(db, chk):
    f = db.one(r"^dataset::transaction::Transaction::build_manifest$", file=TX)
    chk.analysed(f)
    c = f.cfg
    R = "ORIGIN-stamp"
    chk.rule(R, "the version stamped on new rows is <current manifest>.version + 1")
    bvm = calls(f, "rowids::version::build_version_meta")
    chk.floor(R, "build_version_meta call sites in build_manifest", len(bvm), 4)
    for n, (b, t) in enumerate(bvm):
        o = c.op_origins(t["args"][1], transparent=lambda t: True)
        clos = [db.fns[x[1]] for x in o if x[0] == "closure" and x[1] in db.fns]
        plus_one = any(s.get("rv", {}).get("r") == "bin" and s["rv"]["op"].startswith("Add") and s["rv"]["b"].get("v") == 1 and
                       any(isinstance(e, dict) and e.get("f") == "version" for e in (op_place(s["rv"]["a"]) or []) + [x for x in []])
                       or s.get("rv", {}).get("r") == "bin" and s["rv"]["op"].startswith("Add") and s["rv"]["b"].get("v") == 1
                       for k in clos for _, _, s in k.cfg.stmts())
        reads_version = any(isinstance(e, dict) and e.get("f") == "version" for k in clos for _, _, s in k.cfg.stmts()
                            for p in ([(s.get("rv") or {}).get("place")] + [op_place((s.get("rv") or {}).get(x) or {}) for x in ("op", "a", "b")]) if p for e in p)
        from_current = ("arg", 2) in o            # current_manifest parameter
        from_read_version = ("field", "read_version") in o
        consts = sorted({x[1] for x in o if x[0] == "const" and isinstance(x[1], int)})
        ok = from_current and plus_one and reads_version and not from_read_version and set(consts) <= {1}
        chk.ob(R, "stamp:%d" % n, ok,
               "build_version_meta(.., v): v derives from current_manifest (%s) via `.version + 1` (%s/%s), fallback constants %s, "
               "uses the transaction's read_version: %s" % (from_current, reads_version, plus_one, consts, from_read_version), f.loc(t["ln"]))
    R2 = "ARMS-stamp"
    chk.rule(R2, "new fragments of Append / Overwrite / Update receive the stamp in the required fields")
    sws = [b for b in sorted(c.reach0) if matrix._is_op_switch(c.switch_info(b)) and c.switch_info(b)["place"][0] == 1]
    nr = [i for i, l in enumerate(f.locals) if l.get("name") == "next_row_id" and l["ty"].startswith("std::option::Option<u64>")]
    for var, need in (("Append", {"created_at_version_meta", "last_updated_at_version_meta"}),
                      ("Overwrite", {"created_at_version_meta", "last_updated_at_version_meta"}),
                      ("Update", {"last_updated_at_version_meta", "created_at_version_meta"})):
        def ef(b, var=var):
            if b in sws:
                si = c.switch_info(b)
                return [si["label_to"][var]] if var in si["label_to"] else []
            return None
        reach = c.reachable_from([0], include_start=True, edge_filter=ef)
        written = {}
        for i, j, s in c.stmts():
            if i not in reach or not s.get("lhs") or len(s["lhs"]) < 2:
                continue
            last = s["lhs"][-1]
            if isinstance(last, dict) and last.get("f") in need:
                o = c.op_origins(s["rv"]["op"], transparent=lambda t: not has_name(t, "build_version_meta")) if s["rv"]["r"] == "use" else set()
                written.setdefault(last["f"], []).append((origin_has_call(o, "build_version_meta"), i, s["ln"]))
        for fld in sorted(need):
            ws = written.get(fld, [])
            from_stamp = any(w[0] for w in ws)
            chk.ob(R2, "%s.%s" % (var, fld), bool(ws) and from_stamp,
                   "%s arm writes fragment.%s %d time(s), from build_version_meta: %s" % (var, fld, len(ws), from_stamp), f.loc(ws[0][2]) if ws else f.loc())
        # the stamping is reachable only with stable row ids: dominated by a Some-test of the row-id counter
        stamp_blocks = [w[1] for ws in written.values() for w in ws if w[0]]
        guarded = bool(stamp_blocks) and bool(nr)
        for sb in stamp_blocks:
            g = False
            for b in sorted(reach):
                si = c.switch_info(b)
                if si and c.dominates(b, sb):
                    p = op_place(c.blocks[b]["term"]["on"])
                    if p is None:
                        continue
                    if nr[0] in _behind(c, p[0]):
                        g = True
            guarded = guarded and g
        chk.ob(R2, "%s:only-with-stable-row-ids" % var, guarded, "%s arm stamps versions only under a test of the row-id counter (stable row ids)" % var, f.loc())
    chk.sample({"build_version_meta_sites": [t["ln"] for _, t in bvm]})
    chk.assume("build_version_meta(fragment, v) stamps every physical row of the fragment with v")
    check_positions_refer_to_entry_state(db, chk)
    check_row_ids_are_not_addresses(db, chk)
    check_delta_filters(db, chk)


MASKS = ((r"rowids::version::RowDatasetVersionSequence::mask$", "lance-table/src/rowids/version.rs"),
         (r"rowids::RowIdSequence::mask$", "lance-table/src/rowids.rs"))


def check_positions_refer_to_entry_state(db, chk):
    """Compaction drops deleted rows from the per-row version sequences (and the row-id sequence) with `mask(positions)`;
    the positions are offsets into the sequence as it is on entry.  The loop keeps a running position and deletes from the
    current run / segment as it goes, so the run's length has to be read BEFORE the deletion of that iteration: a length read
    afterwards is short by the rows just deleted, every later position is attributed one run too early, and surviving rows
    take over a neighbour's created-at / last-updated version (the row count stays right, so nothing else notices)."""
    R = "ORDER-length-before-deletion"
    chk.rule(R, "in the sequence mask loops, a length of the current run that feeds the position arithmetic is read before the "
                "run is masked in that iteration (no such read is reachable from the deletion without passing the loop head)")
    for pat, file in MASKS:
        f = db.one(pat, file=file)
        chk.analysed(f)
        c = f.cfg
        who = f.path.split("::")[-2]
        nexts = {b for b, t in c.calls() if has_name(t, "IterMut") and name_of(t).endswith("::next")}
        def from_loop(t):
            return any(o[0] == "call" and o[2] in nexts for o in c.op_origins(t["args"][0], transparent=lambda t_: False))
        muts = [(b, t) for b, t in c.calls() if name_of(t).endswith("U64Segment::mask") and from_loop(t)]
        lens = [(b, t) for b, t in c.calls() if name_of(t).endswith("::len") and t["args"] and from_loop(t)]
        feeding = []
        for b, t in lens:
            for i, j, st in c.stmts():
                rv = st.get("rv") or {}
                if rv.get("r") == "bin" and str(rv.get("op", "")).startswith("Add"):
                    if any(any(o[0] == "call" and o[2] == b and o[1].endswith("::len") for o in c.op_origins(rv[x], transparent=lambda t_: False)) for x in ("a", "b")):
                        feeding.append((b, t))
                        break
        chk.ob(R, "anchors:%s" % who, len(nexts) == 1 and len(muts) >= 1 and len(feeding) >= 1,
               "%s::mask: %d loop over the runs, %d deletion(s) from the current run, %d length read(s) feeding the position arithmetic" % (
                   who, len(nexts), len(muts), len(feeding)), f.loc())
        late = [(lb, mb) for lb, _ in feeding for mb, _ in muts if lb in c.reachable_from([mb], avoid=sorted(nexts))]
        chk.ob(R, "length-before-deletion:%s" % who, bool(feeding) and not late,
               "%s::mask: %s" % (who, "every length that feeds the positions is read before the run is masked" if not late else
                                 "a length feeding the positions is read after the run was masked in the same iteration (blocks %s)" % late),
               f.loc(feeding[0][1]["ln"]) if feeding else f.loc())


def _has_call(e, sub, d=0):
    if not isinstance(e, tuple) or d > 30:
        return False
    if e[0] == "call":
        return sub in (e[1] or "") or any(_has_call(a, sub, d + 1) for a in e[2])
    return any(_has_call(x, sub, d + 1) for x in e[1:] if isinstance(x, tuple))


def check_row_ids_are_not_addresses(db, chk):
    """A RowIdSequence exists only with stable row ids, and its elements are then sequence numbers, not (fragment << 32 | offset)
    addresses: taking such an element apart with `>> 32` / `& 0xFFFF_FFFF` (or RowAddress::from) looks the row up in fragment 0
    at offset = id.  Where the created-at version of a rewritten row is fetched that way, every row that was not created
    in the first fragment gets another row's version or the fallback."""
    R = "ORIGIN-row-id-not-address"
    chk.rule(R, "no element of a RowIdSequence is split into fragment id and offset (`>> 32`, `& 0xFFFFFFFF`, RowAddress::from / new_from_u64)")
    n = sites = 0
    for f in sorted(db.fns.values(), key=lambda f: (f.file, f.line)):
        if not f.focus:
            continue
        c = f.cfg
        hits = []
        for i, j, st in c.stmts():
            rv = st.get("rv") or {}
            if rv.get("r") == "bin" and ((str(rv.get("op")).startswith("Shr") and rv["b"].get("v") == 32) or
                                         (str(rv.get("op")).startswith("BitAnd") and rv["b"].get("v") == 0xFFFFFFFF)):
                sites += 1
                if _has_call(expr_of(f, rv["a"]), "RowIdSequence"):
                    hits.append((st.get("ln"), "`%s`" % (">> 32" if str(rv["op"]).startswith("Shr") else "& 0xFFFFFFFF")))
        for b, t in c.calls():
            if has_name(t, "RowAddress as std::convert::From<u64>>::from", "RowAddress::new_from_u64") and t["args"]:
                sites += 1
                if _has_call(expr_of(f, t["args"][0]), "RowIdSequence"):
                    hits.append((t.get("ln"), "RowAddress::from"))
        if hits:
            n += 1
            chk.analysed(f)
            chk.ob(R, "%s" % f.root().path, False,
                   "%s takes elements of a RowIdSequence (stable row ids) apart as addresses: %s" % (f.path, ", ".join("%s at line %s" % (h[1], h[0]) for h in hits)),
                   f.loc(hits[0][0]))
    chk.floor(R, "address-arithmetic sites examined", sites, 10)
    if not n:
        chk.ob(R, "none", True, "%d address-arithmetic sites examined; none of them works on an element of a RowIdSequence" % sites, None)


def check_delta_filters(db, chk):
    """"The inserted-rows and updated-rows deltas between two versions contain exactly the rows ... inserted, or updated but
    not inserted, in that range": given correct version columns this is decided by the predicate the delta builder hands to the
    scanner.  The predicate is a conjunction of comparisons of the two version columns with the range ends: a finite table."""
    import re
    R = "TABLE-delta-filter"
    chk.rule(R, "DatasetDelta: inserted = created in (begin, end]; updated = created <= begin and last-updated in (begin, end] "
                "(the SQL templates are parsed into {(column, operator, range end)} and compared as sets)")
    created = (db.consts.get("ROW_CREATED_AT_VERSION") or {}).get("val")
    updated = (db.consts.get("ROW_LAST_UPDATED_AT_VERSION") or {}).get("val")
    if not created or not updated:
        raise AnchorMissing("version column name constants not found")
    want = {
        "inserted": {("created", ">", "begin"), ("created", "<=", "end")},
        "updated": {("created", "<=", "begin"), ("updated", ">", "begin"), ("updated", "<=", "end")},
    }
    flip = {"<": ">", ">": "<", "<=": ">=", ">=": "<=", "=": "="}
    got = []
    for m in db.fmts:
        if not m["file"].endswith("lance/src/dataset/delta.rs"):
            continue
        tpl = "".join(x["lit"] if "lit" in x else " $%d " % x["arg"] for x in m["pieces"])
        if created not in tpl and updated not in tpl:
            continue
        rows, bad = set(), []
        if re.search(r"\b(or|not)\b", tpl, re.I):
            bad.append("OR / NOT in the predicate")
        for conj in re.split(r"\band\b", tpl, flags=re.I):
            mm = re.match(r"^\s*(\S+)\s*(<=|>=|<|>|=)\s*(\S+)\s*$", conj)
            if not mm:
                bad.append("unparsed `%s`" % conj.strip())
                continue
            a, op, b = mm.groups()
            if a.startswith("$"):
                a, b, op = b, a, flip[op]
            col = "created" if a == created else "updated" if a == updated else None
            src = m["args"][int(b[1:])]["src"] if b.startswith("$") and b[1:].isdigit() else ""
            end = "begin" if "begin_version" in src else "end" if "end_version" in src else None
            if col is None or end is None:
                bad.append("`%s` (%s)" % (conj.strip(), src))
                continue
            rows.add((col, op, end))
        got.append((m, rows, bad))
    for name, table in want.items():
        hits = [(m, rows, bad) for m, rows, bad in got if rows == table and not bad]
        chk.ob(R, name, len(hits) == 1,
               "%s-rows predicate %s" % (name, ("= %s" % sorted(table)) if len(hits) == 1 else
                                         "not found as %s; predicates present: %s" % (sorted(table), [(sorted(r), b) for _, r, b in got])),
               "%s:%s" % (hits[0][0]["file"], hits[0][0]["line"]) if hits else None)
    chk.ob(R, "no-other-version-predicate", len(got) == 2, "%d predicate(s) over the version columns in dataset/delta.rs" % len(got), None)


def _behind(c, local, limit=300):
    seen, work = set(), [local]
    while work and len(seen) < limit:
        l = work.pop()
        if l in seen:
            continue
        seen.add(l)
        d = c.defs.get(l)
        if not d:
            continue
        for kind in ("whole", "part"):
            for df in d[kind]:
                if df[0] == "assign":
                    rv = df[3]["rv"]
                    for k in ("op", "a", "b"):
                        if rv.get(k):
                            p = op_place(rv[k])
                            if p:
                                work.append(p[0])
                    if rv.get("place"):
                        work.append(rv["place"][0])
                elif df[0] == "call":
                    for a in df[2]["args"]:
                        p = op_place(a)
                        if p:
                            work.append(p[0])
    return seen

"""C17 Change data feed and version columns are correct -- "rows are stamped with the version being published" clause only.

Decided (Transaction::build_manifest, stable row ids):
  ORIGIN  every version number handed to build_version_meta (the stamp of newly written rows) is
          `<current manifest>.version + 1` -- computed from the manifest the new version is built on (the re-loaded latest,
          see C03) with 1 as the only fallback (no current manifest) -- and never from the transaction's read version
  ARMS    Append and Overwrite: each new fragment gets BOTH created_at_version_meta and last_updated_at_version_meta from
          that stamp, under the stable-row-id guard, after row ids were assigned;
          Update: new fragments get last_updated_at_version_meta from that stamp (created_at is carried over from the
          original fragments or falls back to the stamp)
Not decided: the per-row version sequences themselves, carry-over through compaction, the delta queries (values).
"""
from engine.cfg import op_place, expr_of
from engine.facts import AnchorMissing
from . import matrix
from .common import calls, name_of, has_name, origin_has_call

LEVEL = "other"
TX = "lance/src/dataset/transaction.rs"


def run(db, chk):
    f = db.one(r"^dataset::transaction::Transaction::build_manifest$", file=TX)
    chk.analysed(f)
    c = f.cfg
    R = "ORIGIN-stamp"
    chk.rule(R, "the version stamped on new rows is <current manifest>.version + 1")
    bvm = calls(f, "rowids::version::build_version_meta")
    chk.floor(R, "build_version_meta call sites in build_manifest", len(bvm), 4)
    for n, (b, t) in enumerate(bvm):
        o = c.op_origins(t["args"][1], transparent=lambda t: True)
        clos = [db.fns[x[1]] for x in o if x[0] == "closure" and x[1] in db.fns]
        plus_one = any(s.get("rv", {}).get("r") == "bin" and s["rv"]["op"].startswith("Add") and s["rv"]["b"].get("v") == 1 and
                       any(isinstance(e, dict) and e.get("f") == "version" for e in (op_place(s["rv"]["a"]) or []) + [x for x in []])
                       or s.get("rv", {}).get("r") == "bin" and s["rv"]["op"].startswith("Add") and s["rv"]["b"].get("v") == 1
                       for k in clos for _, _, s in k.cfg.stmts())
        reads_version = any(isinstance(e, dict) and e.get("f") == "version" for k in clos for _, _, s in k.cfg.stmts()
                            for p in ([(s.get("rv") or {}).get("place")] + [op_place((s.get("rv") or {}).get(x) or {}) for x in ("op", "a", "b")]) if p for e in p)
        from_current = ("arg", 2) in o            # current_manifest parameter
        from_read_version = ("field", "read_version") in o
        consts = sorted({x[1] for x in o if x[0] == "const" and isinstance(x[1], int)})
        ok = from_current and plus_one and reads_version and not from_read_version and set(consts) <= {1}
        chk.ob(R, "stamp:%d" % n, ok,
               "build_version_meta(.., v): v derives from current_manifest (%s) via `.version + 1` (%s/%s), fallback constants %s, "
               "uses the transaction's read_version: %s" % (from_current, reads_version, plus_one, consts, from_read_version), f.loc(t["ln"]))
    R2 = "ARMS-stamp"
    chk.rule(R2, "new fragments of Append / Overwrite / Update receive the stamp in the required fields")
    sws = [b for b in sorted(c.reach0) if matrix._is_op_switch(c.switch_info(b)) and c.switch_info(b)["place"][0] == 1]
    nr = [i for i, l in enumerate(f.locals) if l.get("name") == "next_row_id" and l["ty"].startswith("std::option::Option<u64>")]
    for var, need in (("Append", {"created_at_version_meta", "last_updated_at_version_meta"}),
                      ("Overwrite", {"created_at_version_meta", "last_updated_at_version_meta"}),
                      ("Update", {"last_updated_at_version_meta", "created_at_version_meta"})):
        def ef(b, var=var):
            if b in sws:
                si = c.switch_info(b)
                return [si["label_to"][var]] if var in si["label_to"] else []
            return None
        reach = c.reachable_from([0], include_start=True, edge_filter=ef)
        written = {}
        for i, j, s in c.stmts():
            if i not in reach or not s.get("lhs") or len(s["lhs"]) < 2:
                continue
            last = s["lhs"][-1]
            if isinstance(last, dict) and last.get("f") in need:
                o = c.op_origins(s["rv"]["op"], transparent=lambda t: not has_name(t, "build_version_meta")) if s["rv"]["r"] == "use" else set()
                written.setdefault(last["f"], []).append((origin_has_call(o, "build_version_meta"), i, s["ln"]))
        for fld in sorted(need):
            ws = written.get(fld, [])
            from_stamp = any(w[0] for w in ws)
            chk.ob(R2, "%s.%s" % (var, fld), bool(ws) and from_stamp,
                   "%s arm writes fragment.%s %d time(s), from build_version_meta: %s" % (var, fld, len(ws), from_stamp), f.loc(ws[0][2]) if ws else f.loc())
        # the stamping is reachable only with stable row ids: dominated by a Some-test of the row-id counter
        stamp_blocks = [w[1] for ws in written.values() for w in ws if w[0]]
        guarded = bool(stamp_blocks) and bool(nr)
        for sb in stamp_blocks:
            g = False
            for b in sorted(reach):
                si = c.switch_info(b)
                if si and c.dominates(b, sb):
                    p = op_place(c.blocks[b]["term"]["on"])
                    if p is None:
                        continue
                    if nr[0] in _behind(c, p[0]):
                        g = True
            guarded = guarded and g
        chk.ob(R2, "%s:only-with-stable-row-ids" % var, guarded, "%s arm stamps versions only under a test of the row-id counter (stable row ids)" % var, f.loc())
    chk.sample({"build_version_meta_sites": [t["ln"] for _, t in bvm]})
    chk.assume("build_version_meta(fragment, v) stamps every physical row of the fragment with v")


def _behind(c, local, limit=300):
    seen, work = set(), [local]
    while work and len(seen) < limit:
        l = work.pop()
        if l in seen:
            continue
        seen.add(l)
        d = c.defs.get(l)
        if not d:
            continue
        for kind in ("whole", "part"):
            for df in d[kind]:
                if df[0] == "assign":
                    rv = df[3]["rv"]
                    for k in ("op", "a", "b"):
                        if rv.get(k):
                            p = op_place(rv[k])
                            if p:
                                work.append(p[0])
                    if rv.get("place"):
                        work.append(rv["place"][0])
                elif df[0] == "call":
                    for a in df[2]["args"]:
                        p = op_place(a)
                        if p:
                            work.append(p[0])
    return seen

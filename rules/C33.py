"""C33 Manifest naming and latest-version discovery are exact.

Decided (constant agreement and shape):
  CONST  V2 manifest_path and parse_version apply the same involution u64::MAX - x; the zero-pad width of the V2
         template = 20 = decimal digits of u64::MAX = the 20 in detect_scheme::V2_LEN and in detect_scheme_staging;
         V2_LEN = 20 + 1 + len(MANIFEST_EXTENSION); DETACHED_VERSION_PREFIX is one non-digit byte that sorts after '9';
         is_detached_version tests exactly DETACHED_VERSION_MASK (the top bit); manifest_path branches on it first.
         With a fixed-width zero-padded decimal, lexicographic order = numeric order of MAX - v = reverse version order
         (the argument; the constants it rests on are what is checked).
  TABLE  detect_scheme: prefix test first, then extension test, V2 iff len == V2_LEN, otherwise None
  DOM    current_manifest_local: an entry can become the result only after detect_scheme = Some and
         parse_version = Some, and replaces the candidate only under `version > latest`;
         current_manifest_path (V1 branch) updates the candidate only under `version > current`
  ORIGIN staging names are `<final>-<uuid>`: never end with the manifest extension, so never detected
  ORIGIN migrate_scheme_to_v2 renames only entries detected as V1, to V2.manifest_path(V1.parse_version(name))
Not decided: behaviour under arbitrary directory contents as a run-time fact.
"""
from engine.cfg import expr_of, op_place, fmt_place
from engine.facts import AnchorMissing
from .common import user_body, calls, one_call, name_of, has_name, origin_has_call, origin_calls

LEVEL = "proof"
FILE = "lance-table/src/io/commit.rs"
U64MAX = (1 << 64) - 1


def const_val(db, path):
    c = db.consts.get(path)
    if c is None:
        raise AnchorMissing("constant %s not found" % path)
    return c["val"]


def find_sub_max(fn):
    """All `u64::MAX - x` (checked or wrapping) binary ops in fn: returns list of (bb, a_expr, b_expr)."""
    out = []
    for i, j, s in fn.cfg.stmts():
        rv = s.get("rv")
        if rv and rv["r"] == "bin" and rv["op"] in ("Sub", "SubWithOverflow", "SubUnchecked"):
            out.append((i, rv["a"], rv["b"], s["ln"]))
    return out


def run(db, chk):
    R = "CONST"
    chk.rule(R, "agreement of naming constants, templates and inversions")
    ext = const_val(db, "io::commit::MANIFEST_EXTENSION")
    prefix = const_val(db, "io::commit::DETACHED_VERSION_PREFIX")
    vdir = const_val(db, "io::commit::VERSIONS_DIR")
    v2len = (db.consts.get("io::commit::ManifestNamingScheme::detect_scheme::V2_LEN") or {}).get("val")   # optional: decided below
    mask = const_val(db, "format::manifest::DETACHED_VERSION_MASK")
    mp = db.one(r"^io::commit::ManifestNamingScheme::manifest_path$", file=FILE)
    pv = db.one(r"^io::commit::ManifestNamingScheme::parse_version$", file=FILE)
    ds = db.one(r"^io::commit::ManifestNamingScheme::detect_scheme$", file=FILE)
    dss = db.one(r"^io::commit::ManifestNamingScheme::detect_scheme_staging$", file=FILE)
    isd = db.one(r"^format::manifest::is_detached_version$")
    for f in (mp, pv, ds, dss, isd):
        chk.analysed(f)

    digits = len(str(U64MAX))
    # --- templates of manifest_path -------------------------------------------------------
    fm = db.fmts_in(mp)
    chk.floor(R, "format templates in manifest_path", len(fm), 3)
    v2t = [m for m in fm if any(p.get("width", -1) > 0 for p in m["pieces"])]
    chk.ob(R, "one-padded-template", len(v2t) == 1, "exactly one zero-padded template in manifest_path (found %d)" % len(v2t), mp.loc())
    width = None
    for m in v2t:
        ph = [p for p in m["pieces"] if "arg" in p]
        lits = [p["lit"] for p in m["pieces"] if "lit" in p]
        width = ph[0]["width"]
        chk.ob(R, "v2-template-shape", len(ph) == 2 and lits == ["."] and ph[0]["zero"] and ph[1]["width"] == -1 and
               m["args"][ph[1]["arg"]]["src"] == "MANIFEST_EXTENSION",
               "V2 template is `{n:0%s}.{MANIFEST_EXTENSION}`: pieces=%s" % (width, m["pieces"]), mp.loc(m["line"]))
        chk.ob(R, "v2-width=digits(u64::MAX)", width == digits, "zero-pad width %s, decimal digits of u64::MAX %s" % (width, digits), mp.loc(m["line"]))
        # the padded argument is MAX - version
        ident = m["args"][ph[0]["arg"]]["ident"]
        loc_ = [i for i, l in enumerate(mp.locals) if l.get("name") == ident]
        ok, det = False, "padded argument %r is not a named local" % ident
        if len(loc_) == 1:
            e = expr_of(mp, loc_[0])
            if e[0] == "field" or e[0] == "tuple":
                e = e[1][0] if e[0] == "tuple" else e
            ok = e[0] == "bin" and e[1] == "Sub" and e[2][0] == "const" and e[2][1] == U64MAX and e[3] == ("param", 3)
            det = "padded argument %s = %s (required: u64::MAX - version)" % (ident, e)
        chk.ob(R, "v2-arg=MAX-version", ok, det, mp.loc(m["line"]))
        chk.sample({"template": m["pieces"], "args": [a["src"] for a in m["args"]]})
    others = [m for m in fm if m not in v2t]
    for m in others:
        srcs = [m["args"][p["arg"]]["src"] for p in m["pieces"] if "arg" in p]
        lits = [p["lit"] for p in m["pieces"] if "lit" in p]
        if srcs and srcs[0] == "DETACHED_VERSION_PREFIX":
            chk.ob(R, "detached-template", srcs == ["DETACHED_VERSION_PREFIX", "version", "MANIFEST_EXTENSION"] and lits == ["."],
                   "detached template is `{PREFIX}{version}.{EXT}`: %s %s" % (srcs, lits), mp.loc(m["line"]))
        else:
            chk.ob(R, "v1-template", srcs == ["version", "MANIFEST_EXTENSION"] and lits == ["."],
                   "V1 template is `{version}.{EXT}`: %s %s" % (srcs, lits), mp.loc(m["line"]))
    # --- manifest_path branches on is_detached_version first ---------------------------------
    c = mp.cfg
    dcall = calls(mp, "is_detached_version")
    chk.ob(R, "detached-test-first", len(dcall) == 1 and all(c.dominates(dcall[0][0], b) for b, t in c.calls() if has_name(t, "fmt::format")),
           "is_detached_version(version) dominates every name construction in manifest_path", mp.loc())
    if dcall:
        a = expr_of(mp, dcall[0][1]["args"][0])
        chk.ob(R, "detached-test-arg", a == ("param", 3), "is_detached_version is applied to the version parameter: %s" % (a,), mp.loc())
    # children all under VERSIONS_DIR
    kids = calls(mp, "Path::child")
    dirs = [t for b, t in kids if t["args"][1].get("cdef", "").endswith("VERSIONS_DIR")]
    chk.ob(R, "under-versions-dir", len(dirs) >= 1 and vdir == "_versions", "names are children of base/%s" % vdir, mp.loc())
    # --- is_detached_version = (v & MASK) != 0, MASK = top bit ---------------------------------
    e = expr_of(isd, 0)
    ok = e[0] == "bin" and e[1] == "Ne" and e[3][0] == "const" and e[3][1] == 0 and e[2][0] == "bin" and e[2][1] == "BitAnd" and \
        e[2][2] == ("param", 1) and e[2][3][0] == "const" and e[2][3][1] == mask
    chk.ob(R, "is_detached=mask-test", ok, "is_detached_version(v) = %s" % (e,), isd.loc())
    chk.ob(R, "mask=top-bit", mask == 1 << 63, "DETACHED_VERSION_MASK = %#x" % mask, isd.loc())
    # --- parse_version -------------------------------------------------------------------------
    pc = pv.cfg
    so = calls(pv, "split_once")
    chk.ob(R, "split-on-dot", len(so) == 1 and so[0][1]["args"][1].get("v") == ord("."), "parse_version splits the name at the first '.'", pv.loc())
    clos = {k.path: k for k in pv.children()}
    sub_in_closure = []
    parse_in_closure = []
    for k in pv.children():
        chk.analysed(k)
        for (i, a, b, ln) in find_sub_max(k):
            sub_in_closure.append((k, a, b, ln))
        if k.cfg.calls_named("str>::parse", "str::<impl str>::parse"):
            parse_in_closure.append(k)
    # every u64 parse in parse_version receives the name's leading component (the text before the first '.') AS IS: detached
    # names `d<number>.manifest` are kept out of version discovery only because that text then fails to parse, so the text
    # must not go through anything that could remove the prefix (strip_prefix, trim_*, slicing, replace ...)
    fam = [pv] + list(pv.children())
    parses = [(k, b, t) for k in fam for b, t in k.cfg.calls_named("str>::parse", "str::<impl str>::parse") if "parse::<u64>" in (t.get("full") or "")]
    PASS_THROUGH = ("split_once", "Try>::branch", "Option::<T>::and_then", "Option::<T>::map", "Option::<T>::ok_or", "Deref>::deref", "AsRef", "Borrow")
    okp = bool(parses)
    detail = []
    for k, b, t in parses:
        o = k.cfg.op_origins(t["args"][0], transparent=lambda t: True)
        via = sorted({x[1] for x in o if x[0] in ("via", "call") and x[1]})
        foreign = [v for v in via if not any(p in v for p in PASS_THROUGH)]
        from_name = ("arg", 2) in o or any("split_once" in v for v in via)
        okp = okp and from_name and not foreign
        detail.append("line %s: from the split name: %s, went through: %s" % (t["ln"], from_name, foreign or "nothing"))
    chk.ob(R, "parse-u64", okp, "every parse::<u64> in parse_version takes the text before the first '.' unmodified (%d site(s): %s)" % (len(parses), "; ".join(detail)),
           pv.loc())
    okinv = len(sub_in_closure) == 1 and sub_in_closure[0][1].get("v") == U64MAX and op_place(sub_in_closure[0][2]) is not None
    chk.ob(R, "parse-v2-inverts-with-MAX", okinv, "V2 parse maps n to u64::MAX - n (same constant as manifest_path): %s" % (
        [(a, b) for _, a, b, _ in sub_in_closure]), pv.loc())
    # V2 arm maps, V1 arm returns the number as is
    sw = [b for b in pc.reach0 if pc.switch_info(b) and (pc.switch_info(b)["adt"] or "").endswith("ManifestNamingScheme")]
    ok1 = False
    if len(sw) == 1:
        si = pc.switch_info(sw[0])
        r1 = pc.reachable_from([si["label_to"]["V1"]], include_start=True, avoid=[si["label_to"]["V2"]])
        r2 = pc.reachable_from([si["label_to"]["V2"]], include_start=True, avoid=[si["label_to"]["V1"]])
        maps2 = [b for b, t in pc.calls() if has_name(t, "Option::<T>::map") and b in r2]
        maps1 = [b for b, t in pc.calls() if has_name(t, "Option::<T>::map") and b in r1]
        ok1 = bool(maps2) and not maps1
    chk.ob(R, "inversion-only-on-V2", ok1, "the inversion is applied on the V2 arm and not on the V1 arm", pv.loc())
    # --- detect_scheme ---------------------------------------------------------------------------
    dc = ds.cfg
    sw_ = calls(ds, "str>::starts_with")
    ew_ = calls(ds, "str>::ends_with")
    ln_ = calls(ds, "str>::len")
    ext_any = [(b, t) for b, t in dc.calls() if len(t["args"]) == 2 and (t["args"][1].get("cdef") or "").endswith("MANIFEST_EXTENSION")]
    pre = [(b, t) for b, t in sw_ if t["args"][1].get("cdef", "").endswith("DETACHED_VERSION_PREFIX")]
    chk.ob(R, "detect:prefix-first", len(pre) == 1 and bool(ext_any) and all(dc.dominates(pre[0][0], b) for b, _ in ext_any),
           "detect_scheme tests the detached prefix, then the manifest extension", ds.loc())
    # a published manifest name ENDS with the extension: staged files are `<final name>-<uuid>` and must not be detected.  The
    # extension is therefore tested with ends_with on the name (or equality on the split-off extension), never starts_with
    ext_tests = [(b, t) for b, t in dc.calls() if len(t["args"]) == 2 and (t["args"][1].get("cdef") or "").endswith("MANIFEST_EXTENSION")]
    exact = [(b, t) for b, t in ext_tests if name_of(t).endswith(("::ends_with", "PartialEq::eq", "PartialEq::ne", "::eq", "::ne"))]
    loose = [(b, t) for b, t in ext_tests if name_of(t).endswith(("::starts_with", "::contains", "::find"))]
    chk.ob(R, "detect:extension-exact", bool(exact) and not loose,
           "detect_scheme tests the manifest extension with %s%s" % (sorted({name_of(t).split("::")[-1] for _, t in ext_tests}) or "nothing",
                                                                      "" if exact and not loose else
                                                                      ": a staged `<name>.manifest-<uuid>` is detected as a published manifest and can become the latest version"),
           ds.loc(ext_tests[0][1]["ln"]) if ext_tests else ds.loc())
    eqs = [(i, s) for i, j, s in dc.stmts() if s.get("rv", {}).get("r") == "bin" and s["rv"]["op"] == "Eq"]
    okl = len(eqs) == 1 and (eqs[0][1]["rv"]["b"].get("cdef") or "").endswith("V2_LEN") and len(ln_) == 1
    # the same decision written on the split-off version part: `<version part>.len() == 20`
    lens_ = calls(ds, "::len")
    alt = width is not None and len(eqs) == 1 and eqs[0][1]["rv"]["b"].get("v") in (width, width + 1 + len(ext)) and len(lens_) >= 1
    chk.ob(R, "detect:len==V2_LEN", okl or alt, "V2 is chosen iff the name has the V2 length (%s)" % (
        "filename.len() == V2_LEN" if okl else "a length compared with %s" % eqs[0][1]["rv"]["b"].get("v") if alt else "no such test"), ds.loc())
    chk.ob(R, "V2_LEN=width+1+len(ext)", width is not None and (v2len == width + 1 + len(ext) or (v2len is None and alt)),
           "V2_LEN = %s, width %s + 1 + len(%r) = %s" % (v2len, width, ext, (width or 0) + 1 + len(ext)), ds.loc())
    # result table by constrained reachability over the three boolean tests
    if len(sw_) == 1 and len(ew_) == 1 and okl:
        def arm(call_bb, val):
            b = [x for x in dc.reach0 if dc.switch_info(x) and dc.switch_info(x)["kind"] == "bool" and dc.bool_def(x) and
                 dc.bool_def(x)[0] == "call" and dc.bool_def(x)[1] == call_bb]
            return b[0], dc.switch_info(b[0])["label_to"][val]
        eqsw = [x for x in dc.reach0 if dc.switch_info(x) and dc.switch_info(x)["kind"] == "bool" and dc.bool_def(x) and dc.bool_def(x)[0] == "assign"
                and dc.bool_def(x)[1] == eqs[0][0]]

        def result(constraints):
            def ef(b):
                if b in constraints:
                    return [constraints[b]]
                return None
            r = dc.reachable_from([0], include_start=True, edge_filter=ef)
            out = set()
            for i, j, s in dc.aggregates(adt="Option"):
                if i in r:
                    if s["rv"]["variant"] == "None":
                        out.add("None")
                    else:
                        e = expr_of(ds, s["rv"]["ops"][0], within=r)
                        out.add("Some(%s)" % (e[2] if e[0] == "agg" else e,))
            return out
        s_sw, s_t = arm(sw_[0][0], True)
        _, s_f = arm(sw_[0][0], False)
        e_sw, e_t = arm(ew_[0][0], True)
        _, e_f = arm(ew_[0][0], False)
        q = eqsw[0]
        q_t = dc.switch_info(q)["label_to"][True]
        q_f = dc.switch_info(q)["label_to"][False]
        rows = {
            "prefix": result({s_sw: s_t}),
            "!prefix,!ext": result({s_sw: s_f, e_sw: e_f}),
            "!prefix,ext,len=V2_LEN": result({s_sw: s_f, e_sw: e_t, q: q_t}),
            "!prefix,ext,len!=V2_LEN": result({s_sw: s_f, e_sw: e_t, q: q_f}),
        }
        exp = {"prefix": {"Some(V2)"}, "!prefix,!ext": {"None"}, "!prefix,ext,len=V2_LEN": {"Some(V2)"}, "!prefix,ext,len!=V2_LEN": {"Some(V1)"}}
        for k in rows:
            chk.ob("TABLE-detect", k, rows[k] == exp[k], "detect_scheme[%s] = %s (required %s)" % (k, sorted(rows[k]), sorted(exp[k])), ds.loc())
        chk.extra["detect_scheme_table"] = {k: sorted(v) for k, v in rows.items()}
    # --- detect_scheme_staging -----------------------------------------------------------------
    nth = calls(dss, "Iterator::nth")
    chk.ob(R, "staging-index=width", len(nth) == 1 and nth[0][1]["args"][1].get("v") == width,
           "detect_scheme_staging inspects character index %s (V2 width %s)" % (nth[0][1]["args"][1].get("v") if nth else None, width), dss.loc())
    # --- prefix properties -----------------------------------------------------------------------
    chk.ob(R, "prefix-one-byte", isinstance(prefix, str) and len(prefix.encode()) == 1, "DETACHED_VERSION_PREFIX = %r" % prefix)
    chk.ob(R, "prefix-not-digit", not prefix.isdigit() and not prefix.startswith(("+", "-")),
           "a name starting with %r cannot parse as u64, so detached names never yield a version" % prefix)
    chk.ob(R, "prefix-sorts-after-digits", prefix > "9", "%r > '9': detached names list after every attached V2 name" % prefix)
    chk.ob(R, "ext-no-dot", "." not in ext and ext == "manifest", "MANIFEST_EXTENSION = %r" % ext)

    # --- staging names ---------------------------------------------------------------------------
    ms = db.one(r"^io::commit::make_staging_manifest_path$", file=FILE)
    chk.analysed(ms)
    fms = db.fmts_in(ms)
    okst = False
    for m in fms:
        lits = [p.get("lit") for p in m["pieces"]]
        if lits == [None, "-", None] and [a["ident"] for a in m["args"]] == ["base", "id"]:
            idl = [i for i, l in enumerate(ms.locals) if l.get("name") == "id"]
            org = ms.cfg.origins(idl[0]) if idl else set()
            okst = origin_has_call(org, "::new_v4")
    chk.ob("ORIGIN", "staging-name=<final>-<uuid>", okst, "staging path is `{final}-{uuid v4}`: it ends in a uuid, never in the manifest extension", ms.loc())

    # --- discovery --------------------------------------------------------------------------------
    cml = db.one(r"^io::commit::current_manifest_local$", file=FILE)
    chk.analysed(cml)
    lc = cml.cfg
    det = one_call(cml, "ManifestNamingScheme::detect_scheme")
    par = one_call(cml, "ManifestNamingScheme::parse_version")
    from .common import ok_targets
    d_ok, d_err, _ = ok_targets(lc, det[0])
    p_ok, p_err, _ = ok_targets(lc, par[0])
    # candidate assignments: aggregates Option::Some of a tuple (version, entry) assigned to the local named latest_entry
    le = [i for i, l in enumerate(cml.locals) if l.get("name") == "latest_entry"]
    cand = []
    if len(le) == 1:
        for kind in ("whole", "part"):
            for df in lc.defs[le[0]][kind]:
                if df[0] != "assign" or df[1] not in lc.reach0:
                    continue  # (drop-and-replace duplicates the store into an unwind block)
                e = expr_of(cml, df[3]["rv"]["op"]) if df[3]["rv"]["r"] == "use" else (
                    ("agg", df[3]["rv"].get("adt"), df[3]["rv"].get("variant"), {}) if df[3]["rv"]["r"] == "agg" else ("unknown",))
                if e[0] == "agg" and e[2] == "None":
                    continue  # the initial `None`
                cand.append(df)
    chk.floor("DOM", "candidate updates in current_manifest_local", len(cand), 2)
    for df in cand:
        bb = df[1]
        okd = any(lc.dominates(t, bb) for t in d_ok) and any(lc.dominates(t, bb) for t in p_ok)
        chk.ob("DOM", "candidate-after-detect+parse@L%d" % 0 if False else "candidate-after-detect+parse:%d" % cand.index(df), okd,
               "an entry becomes the candidate only after detect_scheme = Some and parse_version = Some", cml.loc(df[3]["ln"]))
    gts = [(i, s) for i, j, s in lc.stmts() if s.get("rv", {}).get("r") == "bin" and s["rv"]["op"] in ("Gt", "Ge", "Lt", "Le")]
    okgt = len(gts) == 1 and gts[0][1]["rv"]["op"] == "Gt"
    chk.ob("DOM", "local-replace-only-if-greater", okgt, "the candidate is replaced only under `version > latest` (comparisons found: %s)" % [s["rv"]["op"] for _, s in gts], cml.loc())
    if okgt:
        # the replacing assignment (the one dominated by the comparison) lies on its true edge
        gb = gts[0][0]
        sws = [b for b in lc.reach0 if lc.switch_info(b) and lc.switch_info(b)["kind"] == "bool" and lc.bool_def(b) and lc.bool_def(b)[0] == "assign" and lc.bool_def(b)[1] == gb]
        okedge = False
        for b in sws:
            si = lc.switch_info(b)
            rf = lc.reachable_from([si["label_to"][False]], include_start=True, avoid=[si["label_to"][True]])
            rt = lc.reachable_from([si["label_to"][True]], include_start=True, avoid=[si["label_to"][False]])
            repl = [df for df in cand if lc.dominates(b, df[1])]
            okedge = bool(repl) and all(df[1] in rt and df[1] not in (rf - rt) for df in repl)
        chk.ob("DOM", "local-replace-on-true-edge", okedge, "the replacing assignment is on the true edge of `version > latest`", cml.loc())
    # object-store listing path, V1 branch
    cmp_ = db.one(r"^io::commit::current_manifest_path$", file=FILE)
    body = user_body(db, cmp_)
    chk.analysed(body)
    bc = body.cfg
    gts = [(i, s) for i, j, s in bc.stmts() if s.get("rv", {}).get("r") == "bin" and s["rv"]["op"] in ("Gt", "Ge", "Lt", "Le") and not s.get("exp")]
    names = lambda op: fmt_place(body, op_place(op)) if op_place(op) else str(op.get("v"))
    v1 = [(i, s) for i, s in gts if s["rv"]["op"] == "Gt"]
    chk.ob("DOM", "list-v1-max-uses-gt", len(v1) >= 1, "V1 branch keeps the maximum with `version > current_version`: %s" % [
        (s["rv"]["op"], names(s["rv"]["a"]), names(s["rv"]["b"])) for _, s in gts], body.loc())
    # every ManifestLocation built in current_manifest_path takes its version from parse_version
    for i, j, s in bc.aggregates(adt="ManifestLocation"):
        vo = s["rv"]["ops"][s["rv"]["fields"].index("version")]
        org = bc.op_origins(vo)
        chk.ob("ORIGIN", "latest.version<-parse_version:%d" % i, origin_has_call(org, "parse_version"),
               "ManifestLocation.version originates from %s" % origin_calls(org), body.loc(s["ln"]))
    # valid_manifests filter uses detect_scheme
    filt = [k for k in body.family() if k.kind == "closure" and k.cfg.calls_named("ManifestNamingScheme::detect_scheme")]
    chk.ob("DOM", "listing-filtered-by-detect_scheme", len(filt) >= 1, "the listing is filtered through detect_scheme (closure found: %d)" % len(filt), body.loc())

    # --- migration --------------------------------------------------------------------------------
    mg = db.one(r"^io::commit::migrate_scheme_to_v2$", file=FILE)
    fam = mg.family()
    ren = [(k, b, t) for k in fam for b, t in k.cfg.calls() if has_name(t, "ObjectStore>::rename", "ObjectStore::rename") and "{closure" not in name_of(t)]
    chk.floor("ORIGIN", "rename sites in migrate_scheme_to_v2", len(ren), 1)
    for k, b, t in ren:
        chk.analysed(k)
        o_to = k.cfg.op_origins(t["args"][2])
        mpc = k.cfg.calls_named("ManifestNamingScheme::manifest_path")
        o_ver = k.cfg.op_origins(mpc[0][1]["args"][2]) if len(mpc) == 1 else set()
        chk.ob("ORIGIN", "migrate-target", origin_has_call(o_to, "manifest_path") and origin_has_call(o_ver, "parse_version"),
               "rename target originates from %s whose version argument originates from %s (required: manifest_path(.., parse_version(name)))" % (
                   origin_calls(o_to), origin_calls(o_ver)), k.loc(t["ln"]))
    filt = [k for k in fam if k.kind == "closure" and k.cfg.calls_named("ManifestNamingScheme::detect_scheme")]
    okf = False
    for k in filt:
        chk.analysed(k)
        # the filter compares detect_scheme(..) with Some(V1); the constant operand lives in a promoted body
        for i, j, s in k.cfg.aggregates(adt="ManifestNamingScheme", variant="V1"):
            okf = True
        for pb in k.promoted:
            for blk in pb.get("blocks", []):
                for st in blk["st"]:
                    rv = st.get("rv") or {}
                    if rv.get("r") == "agg" and (rv.get("adt") or "").endswith("ManifestNamingScheme") and rv.get("variant") == "V1":
                        okf = True
    chk.ob("ORIGIN", "migrate-only-V1", okf, "only entries whose detected scheme is V1 are renamed", mg.loc())
    chk.extra["exhaustive"] = True
    chk.assume("object_store::path::Path::child does not alter an alphanumeric segment; str::parse::<u64> rejects non-digits")

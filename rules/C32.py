"""C32 Metadata serialisation round trips -- field coverage (rule kind COVER).

For every conversion between a domain type and its protobuf form (discovered from the impl From / TryFrom items whose
types mention `pb::`, in the focus files) the domain -> stored -> domain direction is decided structurally:
  (1) encode reads every field of the domain struct (or, for `Operation`, every field of every variant inside that
      variant's match arm); a field bound to `_` / skipped by `..` is a loss;
  (2) every stored field assigned on encode has an origin that includes the source value (not a constant or Default),
      except the reviewed table of legacy / reserved stored fields;
  (3) decode builds every domain field from an origin that includes the message (a domain field rebuilt from a constant
      is a loss), except the reviewed table of derived fields;
  (4) decode reads every stored field, except the reviewed legacy table.
Enum <-> enum conversions (State, UpdateMode, ...) are checked as inverse tables by interpretation.
Not decided: byte-level encodings (row id sequences, deletion vector files), numeric narrowing, nested values
inside a field that is itself carried (their own pair is listed separately when one exists).
"""
import re

from engine import absint
from engine.absint import Abort, mk_adt
from engine.cfg import op_place, expr_of
from engine.facts import AnchorMissing
from . import matrix
from .common import user_body, calls, name_of, has_name, origin_has_call, origin_calls

LEVEL = "other"

FILES = ("lance/src/dataset/transaction.rs", "lance-table/src/format/", "lance-table/src/format.rs", "lance-table/src/rowids/",
         "lance-index/src/mem_wal.rs", "lance-index/src/frag_reuse.rs")

# (target type suffix, field) -> reason : stored fields that may legitimately be constant on encode
STORED_CONSTANT_OK = {
    ("pb::transaction::Rewrite", "old_fragments"): "deprecated in the format (superseded by `groups`), still read on decode",
    ("pb::transaction::Rewrite", "new_fragments"): "deprecated in the format (superseded by `groups`), still read on decode",
    ("pb::Manifest", "index_section"): "file offset, filled in by the manifest writer after the body is laid out",
    ("pb::Manifest", "transaction_section"): "file offset, filled in by the manifest writer",
    ("pb::Manifest", "metadata"): "legacy schema-metadata slot; schema metadata is carried by schema_metadata/config",
    ("pb::Manifest", "version_aux_data"): "legacy field",
    ("pb::transaction::UpdateConfig", "upsert_values"): "legacy layout superseded by config_updates; still read on decode",
    ("pb::transaction::UpdateConfig", "delete_keys"): "legacy layout superseded by config_updates; still read on decode",
    ("pb::transaction::UpdateConfig", "schema_metadata"): "legacy layout superseded by schema_metadata_updates; still read on decode",
    ("pb::transaction::UpdateConfig", "field_metadata"): "legacy layout superseded by field_metadata_updates; still read on decode",
}
# (domain type suffix, field) -> reason : domain fields that are derived / caches, not persisted
DOMAIN_DERIVED_OK = {
    ("format::manifest::Manifest", "fragment_offsets"): "derived from fragments (compute_fragment_offsets)",
    ("format::manifest::Manifest", "local_schema"): "derived from schema",
    ("format::manifest::Manifest", "index_section"): "file offset set by the reader/writer, not part of the message body",
    ("format::manifest::Manifest", "transaction_section"): "file offset set by the reader/writer",
    ("lance_core::datatypes::Dictionary", "values"): "dictionary values live out of line at (offset, length) and are loaded by load_field_dictionary (used by C43)",
}


def norm(ty):
    ty = ty.strip()
    while ty.startswith("&"):
        ty = ty[1:].strip()
        if ty.startswith("'"):
            ty = ty.split(" ", 1)[1] if " " in ty else ty
        if ty.startswith("mut "):
            ty = ty[4:]
    return ty


def result_inner(ty):
    m = re.match(r"^std::result::Result<(.*), [^,]+>$", ty)
    if m:
        return m.group(1)
    return ty


def find_adt(db, ty):
    ty = norm(ty)
    ty = re.sub(r"<.*>$", "", ty)
    if ty in db.adts:
        return db.adts[ty]
    # cross-crate spelling: strip leading crate name
    parts = ty.split("::")
    for i in range(1, len(parts)):
        k = "::".join(parts[i:])
        if k in db.adts and len(parts) - i >= 2:
            return db.adts[k]
    return None


def conversions(db):
    out = []
    for f in db.fns.values():
        if f.kind != "method" or not f.focus:
            continue
        if not any(x in f.file for x in FILES):
            continue
        p = f.path
        if not (p.endswith("::from") or p.endswith("::try_from")):
            continue
        if "pb::" not in p:
            continue
        out.append(f)
    return sorted(out, key=lambda f: (f.file, f.line))


def param_field_reads(db, f):
    """Names of the first-level fields of parameter 1 read anywhere in f (and, through captures, its closures);
    also reports whether the parameter itself escapes into a call (then coverage cannot be decided here)."""
    c = f.cfg
    reads = set()
    escapes = []

    def visit_place(p):
        pc = c.canon(p)
        if pc[0] != 1:
            return
        rest = [e for e in pc[1:] if e != "*"]
        if rest and isinstance(rest[0], dict) and "f" in rest[0]:
            reads.add(rest[0]["f"])
            return "field"
        return "whole"
    for i, j, s in c.stmts():
        for p in matrix.places_in_stmt(s):
            if s.get("lhs") is p:
                continue
            k = visit_place(p)
            rv = s.get("rv") or {}
            if k == "whole" and rv.get("r") == "agg":
                escapes.append("<moved whole into %s>" % (rv.get("adt") or "aggregate"))
    for b in sorted(c.reach0):
        t = c.blocks[b]["term"]
        if t and t["t"] == "switch":
            p = op_place(t["on"])
            if p is not None:
                visit_place(p)
    for b, t in c.calls():
        for a in t["args"]:
            p = op_place(a)
            if p is None:
                continue
            k = visit_place(p)
            if k == "whole" and not has_name(t, "Clone>::clone", "::clone", "Deref>::deref", "AsRef", "Borrow", "::iter", "::into_iter"):
                escapes.append(name_of(t))
    return reads, escapes


def derives_from_param(c, op, param=1, inside_variant_arm=False):
    """The operand's value depends on parameter `param`: by data flow (origin closure, incl. out-parameters) or because
    it is chosen by a `match` / `if` on something that does (control origins of its definitions).  Inside the arm of a
    dispatch over operation variants the dispatch itself (switches on an enum / Option discriminant of the operation) does
    not count: a constant in the arm depends on *which* variant it is, not on the variant's contents."""
    org = c.op_origins(op, transparent=lambda t: True)
    if ("arg", param) in org:
        return True
    skip = None
    if inside_variant_arm:
        def skip(s):
            si = c.switch_info(s)
            return bool(si) and si["kind"] == "enum" and ((si["adt"] or "").endswith("transaction::Operation") or (si["adt"] or "").endswith("option::Option"))
    return ("arg", param) in c.op_control_origins(op, transparent=lambda t: True, skip=skip)


def struct_fields(adt):
    if adt is None or adt.get("enum"):
        return None
    return [x["name"] for x in adt["variants"][0]["fields"]]


def check_struct_pair(db, chk, f, R):
    src_ty = norm(f.locals[1]["ty"])
    dst_ty = result_inner(norm(f.locals[0]["ty"]))
    src, dst = find_adt(db, src_ty), find_adt(db, dst_ty)
    direction = "encode" if "pb::" in dst_ty and "pb::" not in src_ty else ("decode" if "pb::" in src_ty else "other")
    label = "%s -> %s" % (src_ty.split("::")[-1] if "pb::" not in src_ty else "pb::" + src_ty.split("pb::")[-1],
                          dst_ty.split("::")[-1] if "pb::" not in dst_ty else "pb::" + dst_ty.split("pb::")[-1])
    n = 0
    c = f.cfg
    # ---- read coverage of the source struct
    sf = struct_fields(src)
    if sf and not all(x.isdigit() for x in sf):
        reads, escapes = param_field_reads(db, f)
        if escapes and (not reads or any(e.startswith("<moved whole") for e in escapes)):
            chk.info("%s: the source value is carried / handed on as a whole (%s); nothing can be dropped here" % (label, sorted(set(escapes))[:3]))
        else:
            for fld in sf:
                ok = fld in reads
                exempt = None
                if direction == "decode":
                    exempt = STORED_CONSTANT_OK.get((_suffix(src_ty, "pb::"), fld))
                else:
                    exempt = DOMAIN_DERIVED_OK.get((_suffix2(src_ty), fld))
                if not ok and exempt:
                    chk.info("%s: field %s not read (%s)" % (label, fld, exempt))
                    continue
                n += 1
                chk.ob(R, "reads:%s:%s" % (label, fld), ok,
                       "%s %s source field `%s`%s" % (label, "reads" if ok else "NEVER READS", fld,
                                                      "" if ok else " -- the value is lost on this conversion"), f.loc())
    # ---- write coverage of the target struct
    df = struct_fields(dst)
    if df and not all(x.isdigit() for x in df):
        aggs = [(i, j, s) for (i, j, s) in c.aggregates() if s["rv"].get("adt") and _same_adt(s["rv"]["adt"], dst["path"])]
        later = {}
        for i, j, s in c.stmts():
            lhs = s.get("lhs")
            if lhs and len(lhs) >= 2 and isinstance(lhs[1], dict) and "f" in lhs[1] and _same_ty(f.locals[lhs[0]]["ty"], dst["path"]):
                later.setdefault(lhs[1]["f"], []).append(s)
        if not aggs:
            chk.info("%s: no direct construction of the target struct (built by a helper)" % label)
        for (i, j, s) in aggs[:1] if len(aggs) == 1 else aggs:
            rv = s["rv"]
            for fld, op in zip(rv["fields"], rv["ops"]):
                from_src = derives_from_param(c, op)
                if not from_src and fld in later:
                    from_src = any(derives_from_param(c, x["rv"]["op"]) for x in later[fld] if x.get("rv", {}).get("op"))
                exempt = None
                if direction == "encode":
                    exempt = STORED_CONSTANT_OK.get((_suffix(dst_ty, "pb::"), fld))
                else:
                    exempt = DOMAIN_DERIVED_OK.get((_suffix2(dst_ty), fld))
                if not from_src and exempt:
                    chk.info("%s: target field %s is constant (%s)" % (label, fld, exempt))
                    continue
                n += 1
                chk.ob(R, "writes:%s:%s" % (label, fld), from_src,
                       "%s %s target field `%s`%s" % (label, "fills" if from_src else "fills with a CONSTANT/Default", fld,
                                                      "" if from_src else " -- not derived from the source value"), f.loc(s["ln"]))
    return n


def _suffix(ty, marker):
    return marker + ty.split(marker)[-1]


def _suffix2(ty):
    parts = norm(ty).split("::")
    for i in range(len(parts)):
        if parts[i] == "format" or parts[i] == "dataset":
            return "::".join(parts[i:])
    return ty


def _same_adt(a, b):
    return a == b or a.endswith("::" + b) or b.endswith("::" + a) or a.split("::")[-3:] == b.split("::")[-3:]


def _same_ty(ty, adt_path):
    t = re.sub(r"<.*>$", "", norm(ty))
    return _same_adt(t, adt_path)


# ------------------------------------------------------------------ Operation arms
def check_operation_encode(db, chk):
    R = "COVER-operation-encode"
    chk.rule(R, "From<&Transaction> for pb::Transaction: every field of every Operation variant is read in its arm")
    variants, fields = matrix.operation_variants(db)
    f = db.one(r"From<&dataset::transaction::Transaction> for lance_table::format::pb::Transaction>::from$")
    chk.analysed(f)
    c = f.cfg
    sws = [b for b in sorted(c.reach0) if matrix._is_op_switch(c.switch_info(b))]
    if len(sws) != 1:
        raise AnchorMissing("transaction encode: expected one match on Operation, found %d" % len(sws))
    si = c.switch_info(sws[0])
    n = 0
    for V in variants:
        if V not in si["label_to"]:
            chk.ob(R, "arm:%s" % V, False, "variant %s has no arm in the encoder" % V, f.loc())
            continue
        tgt = si["label_to"][V]
        others = {t for v, t in si["label_to"].items() if t != tgt}
        r = c.reachable_from([tgt], include_start=True, avoid=others)
        read = set()
        for b in r:
            for s in c.blocks[b]["st"]:
                for p in matrix.places_in_stmt(s):
                    for (var, fld) in matrix.fields_in_place(c.canon(p)):
                        if var == V:
                            read.add(fld)
            t = c.blocks[b]["term"]
            if t and t["t"] == "call":
                for a in t["args"]:
                    p = op_place(a)
                    if p:
                        for (var, fld) in matrix.fields_in_place(c.canon(p)):
                            if var == V:
                                read.add(fld)
        for fld in fields[V]:
            n += 1
            chk.ob(R, "%s.%s" % (V, fld), fld in read,
                   "Operation::%s.%s is %s by the transaction encoder%s" % (V, fld, "read" if fld in read else "NOT READ (bound to `_` or skipped)",
                                                                            "" if fld in read else ": the value never reaches storage, so a re-loaded transaction differs from the committed one"),
                   f.loc())
        # stored message built in this arm: constant fields
        for (i, j, s) in c.aggregates():
            if i not in r:
                continue
            adt = s["rv"].get("adt") or ""
            if "pb::transaction::" not in adt or adt.endswith("::Operation"):
                continue
            for fld, op in zip(s["rv"]["fields"], s["rv"]["ops"]):
                from_src = derives_from_param(c, op, inside_variant_arm=True)
                key = (_suffix(adt, "pb::"), fld)
                if not from_src and key in STORED_CONSTANT_OK and STORED_CONSTANT_OK[key]:
                    continue
                n += 1
                chk.ob(R, "stored:%s.%s" % (adt.split("::")[-1], fld), from_src,
                       "stored field %s.%s (arm %s) is %s" % (adt.split("pb::")[-1], fld, V,
                                                              "derived from the transaction" if from_src else "a CONSTANT/Default: whatever the operation carries for it is not persisted"),
                       f.loc(s["ln"]))
    chk.floor(R, "operation fields + stored fields examined", n, 60)


def check_operation_decode(db, chk):
    R = "COVER-operation-decode"
    chk.rule(R, "TryFrom<pb::Transaction> for Transaction: every field of every decoded Operation variant comes from the message")
    variants, fields = matrix.operation_variants(db)
    f = db.one(r"^<dataset::transaction::Transaction as std::convert::TryFrom<lance_table::format::pb::Transaction>>::try_from$")
    chk.analysed(f)
    c = f.cfg
    seen = set()
    n = 0
    per_field = {}
    for (i, j, s) in c.aggregates(adt="dataset::transaction::Operation"):
        V = s["rv"]["variant"]
        seen.add(V)
        for fld, op in zip(s["rv"]["fields"], s["rv"]["ops"]):
            per_field.setdefault((V, fld), []).append((derives_from_param(c, op, inside_variant_arm=True), s["ln"]))
    # a variant may be decoded on several arms (current and legacy message layouts): a field is reproducible when at least
    # one construction derives it from the message
    for (V, fld), obs in sorted(per_field.items()):
        from_msg = any(o[0] for o in obs)
        n += 1
        chk.ob(R, "%s.%s" % (V, fld), from_msg,
               "decoded Operation::%s.%s is %s" % (V, fld, "derived from the message" if from_msg else
                                                   "rebuilt from a CONSTANT on every arm: the stored transaction cannot reproduce it"), f.loc(obs[0][1]))
    for V in variants:
        chk.ob(R, "decodes:%s" % V, V in seen, "the decoder can produce Operation::%s: %s" % (V, V in seen), f.loc())
    chk.floor(R, "decoded operation fields", n, 39)   # counted: sum of the 15 variants' fields
    # the Transaction struct itself
    for (i, j, s) in c.aggregates(adt="dataset::transaction::Transaction"):
        for fld, op in zip(s["rv"]["fields"], s["rv"]["ops"]):
            org = c.op_origins(op, transparent=lambda t: True)
            chk.ob(R, "Transaction.%s" % fld, ("arg", 1) in org, "decoded Transaction.%s derives from the message" % fld, f.loc(s["ln"]))


# ------------------------------------------------------------------ enum tables
def check_enum_tables(db, chk):
    R = "AGREE-enum"
    chk.rule(R, "enum <-> stored enum conversions are inverse tables (interpreted over all variants)")
    pairs = [
        ("mem_wal::State", r"^mem_wal::<impl std::convert::From<mem_wal::State> for lance_table::format::pb::mem_wal_index_details::mem_wal::State>::from$",
         r"^<mem_wal::State as std::convert::TryFrom<lance_table::format::pb::mem_wal_index_details::mem_wal::State>>::try_from$"),
    ]
    for adt_key, enc_pat, dec_pat in pairs:
        adt = db.adts.get(adt_key)
        if adt is None:
            raise AnchorMissing("enum %s not found" % adt_key)
        enc, dec = db.one(enc_pat), db.one(dec_pat)
        chk.analysed(enc)
        chk.analysed(dec)
        it = absint.Interp(db, [])
        for v in adt["variants"]:
            name = v["name"]
            try:
                e = list(it.explore(lambda: it.call_fn(enc, [mk_adt(adt_key.split("::")[-1], name, {})])))
                d = list(it.explore(lambda: it.call_fn(dec, [e[0]])))
                got = d[0].get("0", {}).get("$variant") if isinstance(d[0], dict) and d[0].get("$variant") == "Ok" else d[0].get("$variant") if isinstance(d[0], dict) else None
                chk.ob(R, "%s::%s" % (adt_key, name), got == name, "decode(encode(%s)) = %s (stored as %s)" % (name, got, e[0].get("$variant") if isinstance(e[0], dict) else e[0]), enc.loc())
            except Abort as ex:
                chk.ob(R, "%s::%s" % (adt_key, name), False, "interpreter aborted (fail closed): %s" % ex, enc.loc())
    # IndexExprResult discriminant / from_parts
    disc = db.one(r"^scalar::expression::IndexExprResult::discriminant$")
    fp = db.one(r"^scalar::expression::IndexExprResult::from_parts$")
    chk.analysed(disc)
    chk.analysed(fp)
    it = absint.Interp(db, [], lenient=True)
    from .C21 import Ref_to
    for k in ("Exact", "AtMost", "AtLeast"):
        try:
            d = list(it.explore(lambda: it.call_fn(disc, [Ref_to(mk_adt("IndexExprResult", k, {"0": ("mask",)}))])))
            r = list(it.explore(lambda: it.call_fn(fp, [("mask",), d[0]])))
            got = r[0].get("0", {}).get("$variant") if isinstance(r[0], dict) and r[0].get("$variant") == "Ok" else None
            chk.ob(R, "IndexExprResult::%s" % k, got == k and isinstance(d[0], int), "from_parts(mask, discriminant(%s)=%s) = %s" % (k, d[0], got), disc.loc())
        except Abort as ex:
            chk.ob(R, "IndexExprResult::%s" % k, False, "interpreter aborted (fail closed): %s" % ex, disc.loc())


def check_optional_by_emptiness(db, chk):
    """protobuf has no Option for repeated / map / bytes fields, so the conversions store `None` as "empty" and rebuild the
    Option from an emptiness test.  Wherever a conversion picks Some / None for one value by an `is_empty()` test of the
    stored field, empty must be the None side (the other way round a present value decodes to None and is lost)."""
    R = "TABLE-empty-is-none"
    chk.rule(R, "an Option rebuilt from an is_empty() test is None on the empty side and Some on the other")
    n = 0
    for f in conversions(db):
        c = f.cfg
        for b, t in c.calls():
            if not has_name(t, "::is_empty"):
                continue
            sws = [s for s in sorted(c.reach0) if c.switch_info(s) and c.switch_info(s)["kind"] == "bool" and c.bool_def(s) and
                   c.bool_def(s)[0] == "call" and c.bool_def(s)[1] == b]
            if len(sws) != 1:
                continue
            si = c.switch_info(sws[0])
            arms = {}
            for lab in (True, False):
                tgt = si["label_to"][lab]
                other = si["label_to"][not lab]
                region = {x for x in c.reachable_from([tgt], include_start=True, avoid=[other]) if c.dominates(tgt, x)}
                vs = {}
                for i, j, s in c.aggregates(adt="Option"):
                    if i in region and len(s["lhs"]) == 1:
                        vs.setdefault(s["lhs"][0], set()).add(s["rv"]["variant"])
                arms[lab] = vs
            common = [l for l in arms[True] if l in arms[False] and len(arms[True][l]) == 1 and len(arms[False][l]) == 1 and
                      arms[True][l] != arms[False][l]]
            if not common:
                continue            # not an Option chosen by this test
            n += 1
            chk.analysed(f)
            l = common[0]
            what = _stored_name(c, t["args"][0])
            ok = arms[True][l] == {"None"} and arms[False][l] == {"Some"}
            dst = result_inner(norm(f.locals[0]["ty"])).split("<")[0].split("::")[-1]
            chk.ob(R, "%s.%s" % (dst, what), ok,
                   "%s: the Option rebuilt from `%s.is_empty()` is %s when empty and %s otherwise" % (
                       f.path, what, sorted(arms[True][l])[0], sorted(arms[False][l])[0]), f.loc(t["ln"]))
    chk.floor(R, "Options rebuilt from an emptiness test", n, 3)
    # the encode side of the same convention: where `None` is stored as a fresh empty value (Vec::new / Default / String::new),
    # only None may take that arm -- a `Some(x) if <condition on x>` guard that falls through to it stores a present value as
    # "absent" (Some(empty) and None mean different things, e.g. "covers no fragment" vs "coverage unknown")
    m = 0
    for f in conversions(db):
        src_ty = norm(f.locals[1]["ty"])
        dst_ty = result_inner(norm(f.locals[0]["ty"]))
        if not ("pb::" in dst_ty and "pb::" not in src_ty):
            continue
        c = f.cfg
        for b in sorted(c.reach0):
            si = c.switch_info(b)
            if not (si and si["kind"] == "enum" and (si["adt"] or "").endswith("option::Option") and si["place"] and
                    "Some" in si["label_to"] and "None" in si["label_to"]):
                continue
            if c.canon([si["place"][0]])[0] != 1 and ("arg", 1) not in c.origins(si["place"][0], transparent=lambda t: True):
                continue
            none_t, some_t = si["label_to"]["None"], si["label_to"]["Some"]
            none_region = {x for x in c.reachable_from([none_t], include_start=True, avoid=[some_t]) if c.dominates(none_t, x)}
            fresh = [t for bb, t in c.calls() if bb in none_region and has_name(t, "Vec::<T>::new", "Vec::<T, A>::new", "String::new", "Default>::default",
                                                                                   "HashMap::<K, V>::new", "HashMap::<K, V, S>::default")]
            if not fresh:
                continue
            m += 1
            leak = none_t in c.reachable_from([some_t], include_start=True, avoid=[b])
            what = _stored_name(c, {"cp": si["place"]})
            chk.ob(R, "stored-empty-only-for-None:%s.%s" % (dst_ty.split("::")[-1], what), not leak,
                   "%s: the arm that stores a fresh empty value for `%s` is taken only when the Option is None (a Some value can fall through to it: %s)" % (
                       f.path, what, leak), f.loc(fresh[0]["ln"]))
    chk.info("encode arms storing None as a fresh empty value: %d" % m)


def _option_shapes(c, op, depth=12, seen=None):
    """How the Option in `op` is built: {'Some', 'None', 'call:<name>', 'other'} following plain copies / moves only."""
    seen = seen if seen is not None else set()
    p = op_place(op)
    if p is None:
        return {"other"}
    if len(p) > 1 or depth <= 0:
        return {"other"}
    l = p[0]
    if l in seen:
        return set()
    seen.add(l)
    d = c.defs.get(l)
    if not d or d["part"] or d["mut"] or not d["whole"]:
        return {"other"}
    out = set()
    for df in d["whole"]:
        if df[0] == "assign":
            rv = df[3]["rv"]
            if rv["r"] == "agg" and (rv.get("adt") or "").endswith("option::Option"):
                out.add(rv["variant"])
            elif rv["r"] == "use":
                out |= _option_shapes(c, rv["op"], depth - 1, seen)
            else:
                out.add("other")
        elif df[0] == "call":
            out.add("call:%s" % name_of(df[2]).split("::")[-1])
        else:
            out.add("other")
    return out


def _domain_field(e):
    """(variant-or-None, field) for an expression reading an Option field of parameter 1, through as_ref / clone / map ..."""
    hops = 0
    while isinstance(e, tuple) and hops < 12:
        hops += 1
        if e[0] in ("ref", "deref"):
            e = e[1]
        elif e[0] == "call" and e[2] and (e[1] or "").split("::")[-1] in ("as_ref", "clone", "map", "cloned", "copied", "as_deref", "get", "and_then"):
            e = e[2][0]
        else:
            break
    if not (isinstance(e, tuple) and e[0] == "field"):
        return None
    fld, base, variant = e[2], e[1], None
    while isinstance(base, tuple) and base[0] in ("ref", "deref", "as", "field"):
        if base[0] == "as" and variant is None:
            variant = base[2]
        base = base[1]
    if not (isinstance(base, tuple) and base[0] == "param"):
        return None
    return variant, fld, base[1]


def check_optional_by_default(db, chk):
    """The other way protobuf loses an Option: a scalar / enum / string field stores `None` as the default value
    (`x.unwrap_or(0)`, `.unwrap_or_default()`, `.map_or(0, ..)`).  Then the default value means None, and the decoder has to
    give None back for it: a decoder that wraps every stored value in Some turns the None that was written into Some(default),
    which is a different value (and, for Operation::Update.update_mode, a different manifest when it is applied)."""
    R = "TABLE-default-is-none"
    chk.rule(R, "an Option field stored through unwrap_or / unwrap_or_default / map_or is rebuilt by a decoder that can produce None")
    convs = conversions(db)
    n = 0
    for f in convs:
        src_ty = norm(f.locals[1]["ty"])
        dst_ty = result_inner(norm(f.locals[0]["ty"]))
        if not ("pb::" in dst_ty and "pb::" not in src_ty):
            continue
        for g in f.family():
            if not g.focus:
                continue
            for b, t in g.cfg.calls():
                nm = name_of(t)
                if "Option" not in nm or not any(nm.endswith(x) for x in ("::unwrap_or", "::unwrap_or_default", "::map_or", "::unwrap_or_else")):
                    continue
                vf = _domain_field(expr_of(g, t["args"][0]))
                if vf is None:
                    continue
                variant, fld, pn = vf
                if g is f and pn != 1:
                    continue
                if g is not f:
                    # a closure mapping over part of the source (`deletion_file.map(|d| pb::DeletionFile {..})`): the value it
                    # converts is its own argument
                    if pn < 2 or pn >= len(g.locals) or "pb::" in norm(g.locals[pn]["ty"]):
                        continue
                src_adt = (src_ty if g is f else norm(g.locals[pn]["ty"])).lstrip("&").split("<")[0].strip()
                if fld == "operation":
                    continue
                owner = "dataset::transaction::Operation" if variant and "operation" in str(expr_of(g, t["args"][0])) else src_adt
                shapes, where = set(), None
                for d in convs:
                    dty = result_inner(norm(d.locals[0]["ty"])).split("<")[0]
                    if "pb::" in dty or (owner != "dataset::transaction::Operation" and dty != owner) or \
                            (owner == "dataset::transaction::Operation" and not dty.endswith("transaction::Transaction")):
                        continue
                    for k in d.family():
                        if not k.focus:
                            continue
                        for i, j, st in k.cfg.aggregates(adt=owner.split("::")[-1]):
                            rv = st["rv"]
                            if not (rv["adt"] or "").endswith(owner) or (owner.endswith("Operation") and rv["variant"] != variant):
                                continue
                            if fld in rv["fields"]:
                                shapes |= _option_shapes(k.cfg, rv["ops"][rv["fields"].index(fld)])
                                where = k.loc(st["ln"])
                if not shapes:
                    chk.info("%s.%s is stored by default value; no decoder aggregate found in reach" % (owner.split("::")[-1], fld))
                    continue
                n += 1
                chk.analysed(f)
                only_some = shapes == {"Some"}
                chk.ob(R, "%s%s.%s" % (owner.split("::")[-1], ("::" + variant) if variant else "", fld), not only_some,
                       "%s stores `%s` through %s (None becomes the default value); the decoder builds the field as %s%s" % (
                           f.path.split(" for ")[-1] if " for " in f.path else f.path, fld, nm.split("::")[-1], sorted(shapes),
                           " -- never None: the None that was written comes back as Some(default)" if only_some else ""), where or f.loc(t["ln"]))
    chk.floor(R, "Option fields stored by default value with a decoder in reach", n, 8)


ENCODER_HELPERS_OK = {
    "utils::CachedFileSize::get": "reads the cached size (a plain getter)",
}


def check_encoders_store_the_value_as_is(db, chk):
    """decode(encode(x)) = x needs the encoder to store x, not a tidied-up relative of x (coalesced runs, a re-sorted list, a
    trimmed string): whatever an encoder calls among this workspace's own functions is a conversion into the stored form
    (From / TryFrom / Into with a pb result, or any function returning a pb message), a clone, a default or a reviewed getter."""
    R = "INV-encoder-direct"
    chk.rule(R, "encoders (domain -> pb, and the sequence writers) call no workspace function that returns a non-pb value, other than "
                "Clone / Default / From / Into and the reviewed getters")
    enc = [f for f in conversions(db) if "pb::" in result_inner(norm(f.locals[0]["ty"])) and "pb::" not in norm(f.locals[1]["ty"])]
    enc += [f for f in db.fns.values() if f.focus and f.path.endswith(("rowids::version::write_dataset_versions", "rowids::serde::write_row_ids"))]
    chk.floor(R, "encoders examined", len(enc), 20)
    seen = {}
    for f in enc:
        for g in f.family():
            if not g.focus:
                continue
            for b, t in g.cfg.calls():
                h = db.fns.get(t.get("rid") or t.get("id"))
                if h is None or h.root().id == f.id:
                    continue
                tr = (h.r.get("impl_trait") or "")
                if tr.endswith(("convert::From", "convert::TryFrom", "convert::Into", "clone::Clone", "default::Default", "string::ToString", "fmt::Display")):
                    continue
                try:
                    rt = h.locals[0]["ty"]
                except Exception:
                    rt = "?"
                if "pb::" in rt:
                    continue
                seen.setdefault((f.path, h.path), (g, t, rt))
    for (fp, hp), (g, t, rt) in sorted(seen.items()):
        chk.analysed(g)
        chk.ob(R, "%s->%s" % (fp.split(" for ")[-1].split("::")[-2] if " for " in fp else fp.split("::")[-1], hp.split("::")[-1]), hp in ENCODER_HELPERS_OK,
               "%s calls %s (returns %s): %s" % (fp, hp, rt[:60], ENCODER_HELPERS_OK.get(hp, "not a conversion into the stored form -- the value is "
                                                                                        "rebuilt before it is stored, and the decoder cannot undo that")), g.loc(t["ln"]))
    if not seen:
        chk.ob(R, "none", True, "no encoder calls a workspace function outside the allowed kinds", None)


def _stored_name(c, op):
    p = op_place(op)
    for _ in range(6):
        if p is None:
            return "?"
        nm = c.fn.locals[p[0]].get("name")
        flds = [e["f"] for e in p[1:] if isinstance(e, dict) and "f" in e and not str(e["f"]).isdigit()]
        if flds:
            return flds[-1]
        if nm:
            return nm
        d = c.single_def(p[0])
        if not d or d[0] != "assign":
            return "?"
        rv = d[3]["rv"]
        p = rv.get("place") if rv["r"] == "ref" else (op_place(rv["op"]) if rv["r"] == "use" else None)
    return "?"


def run(db, chk):
    R = "COVER-struct"
    chk.rule(R, "struct conversions: source fields all read, target fields all derived from the source")
    convs = conversions(db)
    chk.floor(R, "conversion functions discovered", len(convs), 40)
    n = 0
    pairs = []
    for f in convs:
        if "dataset::transaction::Transaction" in f.path and ("pb::Transaction" in f.path):
            continue   # handled per Operation arm below
        chk.analysed(f)
        n += check_struct_pair(db, chk, f, R)
        pairs.append(f.path)
    chk.floor(R, "struct field obligations", n, 120)
    chk.extra["conversion_functions"] = pairs
    check_operation_encode(db, chk)
    check_operation_decode(db, chk)
    check_enum_tables(db, chk)
    check_optional_by_emptiness(db, chk)
    check_optional_by_default(db, chk)
    check_encoders_store_the_value_as_is(db, chk)
    chk.sample({"conversion": pairs[0] if pairs else None, "total_pairs": len(pairs)})
    chk.assume("prost encode/decode of a message is lossless for the fields it is given")

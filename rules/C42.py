"""C42 A copied table root is a complete, identical table -- "every persisted reference is root-relative" clause only.

Decided:
  ADT     the persisted descriptors that point at other objects (DeletionFile, IndexMetadata, TagContents, BranchContents,
          RowIdMeta's external file) carry no absolute location: no field of an object-store `Path` type and no field named
          path / uri / url / location / dir, except the reviewed ones (DataFile.path, ExternalFile.path: relative names;
          BasePath.path: the deliberate exception the property itself carves out)
  ORIGIN  DataFile.path: at every place a data file is created by the writers, the stored path originates from
          generate_random_filename() (+ ".lance") and its origin closure -- following every call's arguments, i.e. an
          over-approximation of the function's data flow -- does not contain the base directory / dataset URI
  ORIGIN  Manifest.transaction_file: what the commit funnels hand to build_manifest / restore / shallow_clone is the value
          returned by write_transaction_file (or an empty string when disabled), and that return value does not depend on
          the base path; deletion files are located by deletion_file_path(base, ..) from the *reader's* base at read time
Not decided: that a copied table reads identical data at every version (values); tags/branches after the copy; tables with
additional base paths (excluded by the property).
"""
import re

from engine.cfg import op_place, expr_of
from engine.facts import AnchorMissing
from .common import user_body, calls, name_of, has_name, origin_has_call, origin_calls

LEVEL = "other"

DESCRIPTORS = {
    "format::fragment::DeletionFile": set(),
    "format::index::IndexMetadata": set(),
    "dataset::refs::TagContents": set(),
    "dataset::refs::BranchContents": set(),
    "format::fragment::Fragment": set(),
    "format::fragment::DataFile": {"path"},          # relative name, checked by ORIGIN below
    "format::fragment::ExternalFile": {"path"},      # relative to the table root (row id / version sequences)
}
LOCATION_NAME = re.compile(r"(^|_)(path|uri|url|location|dir|directory)$")


_PRESERVING = ("to_string", "to_owned", "clone", "as_ref", "as_str", "deref", "into", "from", "branch", "from_residual", "unwrap",
               "unwrap_or", "unwrap_or_default", "unwrap_or_else", "expect", "ok", "format", "must_use", "borrow", "to_vec", "as_bytes",
               "to_json", "to_value", "encode_to_vec", "new_display", "new_debug", "new", "join", "push_str", "to_lowercase", "to_uppercase")


def _value_preserving(t):
    """Calls whose result is (a rendering of) their argument: the origin analysis looks through these and stops at the rest."""
    last = name_of(t).split("::")[-1].split("<")[0]
    return last in _PRESERVING or name_of(t).startswith("serde_json::")


def run(db, chk):
    R = "ADT-relative"
    chk.rule(R, "persisted descriptors carry no absolute location field beyond the reviewed relative ones")
    n = 0
    for ty, allowed in DESCRIPTORS.items():
        adt = db.adts.get(ty)
        if adt is None:
            raise AnchorMissing("descriptor type %s not found" % ty)
        for v in adt["variants"]:
            for f in v["fields"]:
                loc_like = bool(LOCATION_NAME.search(f["name"])) or "object_store::path::Path" in f["ty"] or "url::Url" in f["ty"]
                n += 1
                if loc_like:
                    chk.ob(R, "%s.%s" % (ty, f["name"]), f["name"] in allowed,
                           "%s.%s: %s is a location-typed/named field: %s" % (ty, f["name"], f["ty"], "reviewed as a root-relative name" if f["name"] in allowed else
                                                                               "NOT reviewed -- a persisted absolute location breaks a copied table"))
    chk.floor(R, "descriptor fields inspected", n, 25)

    R2 = "ORIGIN-datafile"
    chk.rule(R2, "stored data-file paths come from the generated file name and never from the base directory")
    sites = 0
    # (function pattern, file, how the name reaches the DataFile)
    ow = db.one(r"^dataset::write::open_writer_with_options$", file="lance/src/dataset/write.rs")
    ob = user_body(db, ow, marker="generate_random_filename")
    chk.analysed(ob)
    c = ob.cfg
    for adapter in ("V1WriterAdapter", "V2WriterAdapter"):
        aggs = c.aggregates(adt=adapter)
        chk.ob(R2, "adapter-built:%s" % adapter, len(aggs) == 1, "%s is constructed once in open_writer_with_options (%d)" % (adapter, len(aggs)), ob.loc())
        for i, j, s in aggs:
            rv = s["rv"]
            o = c.op_origins(rv["ops"][rv["fields"].index("path")], transparent=lambda t: True)
            from_gen = origin_has_call(o, "generate_random_filename")
            from_base = ("upvar", "base_dir") in o or ("arg", 3) in o or ("upvar", "object_store") in o and False
            sites += 1
            chk.ob(R2, "adapter-path:%s" % adapter, from_gen and not from_base,
                   "%s.path originates from generate_random_filename: %s; depends on base_dir: %s" % (adapter, from_gen, from_base), ob.loc(s["ln"]))
    for adapter, ctor in (("V1WriterAdapter", "DataFile::new_legacy"), ("V2WriterAdapter", "DataFile::new")):
        fs = [f for f in db.fns.values() if f.file.endswith("lance/src/dataset/write.rs") and adapter in f.path and f.path.endswith("::finish") and f.kind == "method"]
        if len(fs) != 1:
            raise AnchorMissing("%s::finish not found (%d)" % (adapter, len(fs)))
        fb = user_body(db, fs[0], marker=ctor)
        chk.analysed(fb)
        cs = [x for x in calls(fb, ctor) if name_of(x[1]).endswith(ctor)]   # (re-exported as lance_table::format::DataFile)
        for b, t in cs:
            o = fb.cfg.op_origins(t["args"][0], transparent=lambda t: True)
            sites += 1
            chk.ob(R2, "finish-path:%s" % adapter, ("field", "path") in o and (("upvar", "self") in o or ("arg", 1) in o),
                   "%s::finish stores self.path (the generated name) in the DataFile" % adapter, fb.loc(t["ln"]))
        chk.floor(R2, "%s::finish DataFile constructions" % adapter, len(cs), 1)
    for pat, ctor, idx in ((r"FragmentCreateBuilder::<'a>::write_v2_impl$", "DataFile::new_unstarted", 0), (r"FragmentCreateBuilder::<'a>::write_impl$", "Fragment::with_file_legacy", 1)):
        for f in db.find(pat):
            fb = user_body(db, f, marker="generate_random_filename")
            chk.analysed(fb)
            for b, t in [x for x in calls(fb, ctor)]:
                o = fb.cfg.op_origins(t["args"][idx], transparent=lambda t: True)
                from_gen = origin_has_call(o, "generate_random_filename")
                from_base = any(x[0] in ("upvar", "field") and x[1] in ("dataset_uri", "base_path", "base", "base_dir", "uri") for x in o)
                sites += 1
                chk.ob(R2, "fragment-builder:%s" % f.path.split("::")[-1], from_gen and not from_base,
                       "%s stores a path from generate_random_filename: %s; depends on the dataset location: %s" % (f.path.split("::")[-1], from_gen, from_base), fb.loc(t["ln"]))
    chk.floor(R2, "data-file path sites", sites, 5)

    R3 = "ORIGIN-txnfile"
    chk.rule(R3, "the transaction reference stored in a manifest is the bare file name returned by write_transaction_file")
    wt = db.one(r"^io::commit::write_transaction_file$", file="lance/src/io/commit.rs")
    wb = user_body(db, wt, marker="ObjectStore>::put")
    chk.analysed(wb)
    wc = wb.cfg
    oks = [(i, j, s) for (i, j, s) in wc.aggregates(adt="Result", variant="Ok") if s["lhs"] == [0]]
    chk.floor(R3, "Ok returns of write_transaction_file", len(oks), 1)
    for i, j, s in oks:
        o = wc.op_origins(s["rv"]["ops"][0], transparent=lambda t: True)
        from_base = ("upvar", "base_path") in o or ("upvar", "object_store") in o
        from_txn = ("upvar", "transaction") in o
        chk.ob(R3, "returned-name", from_txn and not from_base,
               "write_transaction_file returns a name built from the transaction (%s) and not from the base path (%s)" % (from_txn, not from_base), wb.loc(s["ln"]))
    for pat in (r"^io::commit::commit_transaction$", r"^io::commit::do_commit_detached_transaction$", r"^io::commit::do_commit_new_dataset$"):
        f = db.one(pat, file="lance/src/io/commit.rs")
        body = user_body(db, f, marker="dataset::write_manifest_file")
        chk.analysed(body)
        c = body.cfg
        key = f.path.split("::")[-1]
        users = calls(body, "Transaction::build_manifest") + calls(body, "Transaction::restore_old_manifest") + calls(body, "Manifest::shallow_clone")
        for b, t in users:
            idx = {"build_manifest": 3, "restore_old_manifest": 5, "shallow_clone": 5}[name_of(t).split("::")[-1]]
            o = c.op_origins(t["args"][idx])
            ok = origin_has_call(o, "write_transaction_file") or origin_has_call(o, "String::new")
            from_base = any(x[0] == "field" and x[1] in ("base", "uri") for x in o) and not origin_has_call(o, "write_transaction_file")
            chk.ob(R3, "%s:%s" % (key, name_of(t).split("::")[-1]), ok and not from_base,
                   "%s receives the transaction-file reference from %s" % (name_of(t).split("::")[-1], [x for x in origin_calls(o) if "transaction_file" in x or "String::new" in x]),
                   body.loc(t["ln"]))
    # ExternalFile.path (row-id / version sequences, fragment-reuse index details kept out of line): wherever such a descriptor
    # is built for storing, the path is a name relative to its known directory -- its origin contains no location producer
    R4 = "ORIGIN-external-file"
    chk.rule(R4, "ExternalFile descriptors are built with a relative name, not with a location derived from the table's base")
    LOC = ("::indices_dir", "::data_dir", "::versions_dir", "::deletions_dir", "path::Path::child", "Path>::child", "::base_path", "ObjectStore::base")
    nsites = 0
    for f in sorted(db.fns.values(), key=lambda f: (f.file, f.line)):
        if not f.focus or "/src/" not in f.file:
            continue
        c = f.cfg
        for i, j, s in c.aggregates():
            if not (s["rv"].get("adt") or "").endswith("ExternalFile"):
                continue
            have = dict(zip(s["rv"]["fields"], s["rv"]["ops"]))
            if "path" not in have:
                continue
            o = c.op_origins(have["path"], transparent=lambda t: True)
            if ("arg", 1) in o and not any(x[0] in ("via", "call") for x in o):
                continue        # a plain conversion (pb <-> domain) copying the field
            nsites += 1
            chk.analysed(f)
            bad = sorted({x[1] for x in o if x[0] in ("via", "call") and x[1] and any(l in x[1] for l in LOC)}) + \
                sorted({"." + x[1] for x in o if x[0] == "field" and x[1] in ("base", "uri", "base_dir")})
            chk.ob(R4, "external-file:%s" % f.path.split("::{closure")[0].split("::")[-1], not bad,
                   "%s stores ExternalFile.path from %s" % (f.path.split("::{closure")[0], bad or "a relative name (no location producer in its origin)"), f.loc(s["ln"]))
    chk.floor(R4, "ExternalFile constructions outside plain conversions", nsites, 1)
    # index / data file footers: what a writer puts into the file's own key-value metadata travels with the copy, so it may not
    # name a location either (a reader that opened `index.idx` through the copied root would follow it back to the original)
    R5 = "ORIGIN-file-metadata"
    chk.rule(R5, "values given to FileWriter::add_schema_metadata do not derive from an object-store path, a table URI or a directory producer")
    msites = 0
    for f in sorted(db.fns.values(), key=lambda f: (f.file, f.line)):
        if not f.focus or "/src/" not in f.file:
            continue
        c = f.cfg
        for b, t in c.calls():
            if not name_of(t).endswith("FileWriter::add_schema_metadata") or len(t["args"]) < 3:
                continue
            msites += 1
            chk.analysed(f)
            bad = set()
            # follow the value through captured variables into the enclosing functions
            work, seen = [(f, c.op_origins(t["args"][2], transparent=_value_preserving))], set()
            while work:
                g, o = work.pop()
                bad |= {x[1] for x in o if x[0] in ("via", "call") and x[1] and any(l in x[1] for l in LOC)}
                bad |= {"." + x[1] for x in o if x[0] == "field" and x[1] in ("base", "uri", "base_dir")}
                for x in o:
                    if x[0] != "upvar" or (g.id, x[1]) in seen:
                        continue
                    seen.add((g.id, x[1]))
                    par = db.fns.get(g.parent) if g.parent else None
                    while par is not None:
                        ls = [i for i, l in enumerate(par.locals) if l.get("name") == x[1]]
                        if ls:
                            for l in ls:
                                if "path::Path" in (par.locals[l].get("ty") or ""):
                                    bad.add("%s: %s" % (x[1], par.locals[l]["ty"]))
                                if par.focus:
                                    work.append((par, par.cfg.origins(l, transparent=_value_preserving)))
                            break
                        par = db.fns.get(par.parent) if par.parent else None
            key = t["args"][1].get("cdef") or t["args"][1].get("v") or "?"
            chk.ob(R5, "metadata:%s:%s" % (f.root().path.split("::")[-1], str(key).split("::")[-1]), not bad,
                   "%s writes file metadata `%s` from %s" % (f.root().path, str(key).split("::")[-1], sorted(bad) or "values without a location in their origin"), f.loc(t["ln"]))
    chk.floor(R5, "add_schema_metadata sites", msites, 5)
    dp = db.one(r"^io::deletion::deletion_file_path$", file="lance-table/src/io/deletion.rs")
    chk.analysed(dp)
    e = dp.cfg.origins(0, transparent=lambda t: True)
    chk.ob(R3, "deletion-path-from-reader-base", ("arg", 1) in e and ("arg", 3) in e,
           "deletion_file_path(base, fragment_id, file) is computed from the caller's base and the descriptor (no stored location)", dp.loc())
    chk.sample({"data_file_sites": sites})
    chk.assume("object_store::path::Path::child(name) keeps `name` as a relative segment; tables with extra base paths are outside the property")

"""C20 Inexact scalar indices never drop a matching row -- result-kind discipline.

Decided:
  INV     impl ScalarIndex::search of ZoneMapIndex and BloomFilterIndex construct only SearchResult::AtMost; NGramIndex
          constructs AtMost, or Exact / AtLeast of a *fresh empty* RowIdTreeMap only (no postings can match / nothing
          guaranteed)
  ORIGIN  their new_query_parser passes needs_recheck = true
  ARMS    consumer FilteredReadExec::plan_scan: the per-fragment filter is refine_filter only for Exact (and for AtLeast only
          under the limit-push-down flag); AtMost and non-applicable fragments get full_filter
  ARMS    consumer FilteredReadExec::apply_index_to_fragment: rows outside the mask may be skipped only when the result kind
          bounds the answer from above (Exact, AtMost); for AtLeast -- whose mask only lists *guaranteed* rows -- the ranges to read
          must not be restricted by the mask; skip/take push-down only for Exact / AtLeast
  TABLE   Scanner: whenever the index expression needs a recheck, a post-index filter is applied
  INV     zone / block pruning looks at the predicate: in ZoneMapIndex::evaluate_zone_against_query and
          BloomFilterIndex::evaluate_block_against_query every answer that can be `false` (= skip the zone), inside the arm
          of a query kind that carries values (Equals, Range, IsIn), depends -- by data flow or by the branches that lead to
          it, the dispatch on the query kind excluded -- on those values.  A skip decided from the zone's statistics alone
          would prune the zone for every predicate of that kind, and no statistic alone can justify that (e.g. NaN rows do
          match `x > c`).  Exemption: a skip that depends only on null_count / zone_length (an all-NULL zone matches no
          value predicate)
Not decided: that zone statistics / bloom bits / trigram postings are supersets of the truth; the comparisons' values.
"""
from engine.cfg import op_place, expr_of
from engine.facts import AnchorMissing
from .common import user_body, calls, name_of, has_name, origin_has_call, origin_calls

LEVEL = "other"


def check_prune_looks_at_predicate(db, chk):
    R = "INV-prune-depends-on-query"
    chk.rule(R, "a zone / block is skipped only by an answer that depends on the predicate's values")
    T = lambda t: True
    total = 0
    for pat, file, qadt, null_only in (
            (r"ZoneMapIndex::evaluate_zone_against_query$", "lance-index/src/scalar/zonemap.rs", "SargableQuery", {"null_count", "zone_length"}),
            (r"BloomFilterIndex::evaluate_block_against_query$", "lance-index/src/scalar/bloomfilter.rs", "BloomFilterQuery", {"has_null"})):
        f = db.one(pat, file=file)
        chk.analysed(f)
        c = f.cfg
        qarg = [i for i in range(1, 6) if (f.locals[i].get("name") == "query")]
        if len(qarg) != 1:
            raise AnchorMissing("%s: `query` parameter not found" % f.path)
        qarg = qarg[0]
        sws = [b for b in sorted(c.reach0) if c.switch_info(b) and c.switch_info(b)["kind"] == "enum" and
               (c.switch_info(b)["adt"] or "").endswith(qadt) and c.switch_info(b)["place"] and c.switch_info(b)["place"][0] == qarg and
               all(e == "*" for e in c.switch_info(b)["place"][1:])]
        if len(sws) != 1:
            raise AnchorMissing("%s: dispatch on the query kind not found (%d)" % (f.path, len(sws)))
        si = c.switch_info(sws[0])
        adt = [a for k, a in db.adts.items() if k.endswith(qadt) and a.get("enum")]
        payload = {v["name"]: len(v["fields"]) for v in adt[0]["variants"]} if adt else {}
        name = f.path.split("::")[-1]
        for var, tgt in sorted(si["label_to"].items()):
            if not payload.get(var):
                continue            # IsNull(): nothing to look at but the statistics
            others = {t for t in si["label_to"].values() if t != tgt}
            region = c.reachable_from([tgt], include_start=True, avoid=others)
            rets = [(i, s) for i, j, s in c.aggregates(adt="Result", variant="Ok") if s["lhs"] == [0] and i in region]
            n = 0
            for i, s in rets:
                op = s["rv"]["ops"][0]
                if op_place(op) is None and op.get("v") is True:
                    continue        # keeps the zone
                n += 1
                total += 1
                o = c.op_origins(op, transparent=T) | c.control_origins(i, transparent=T, skip=lambda b: b == sws[0])
                flds = {x[1] for x in o if x[0] == "field"}
                looks = ("arg", qarg) in o
                stats = sorted(x for x in flds if not str(x).isdigit())
                exempt = not looks and bool(stats) and set(stats) <= null_only
                chk.ob(R, "%s:%s:%d" % (name, var, n), looks or exempt,
                       "%s, %s arm, answer #%d (%s): depends on the predicate's values: %s; statistics consulted: %s%s" % (
                           name, var, n, "constant false" if op_place(op) is None else "computed", looks, stats,
                           " (all-NULL exemption)" if exempt else ""), f.loc(s["ln"]))
    chk.floor(R, "skip-capable answers examined", total, 20)


def _is_fragment_id(c, op, depth=6):
    """The operand is a fragment id: the trainer's cur_fragment_id (directly or as a captured upvar) or `row_addr >> 32`."""
    p = op_place(op)
    if p is None or depth == 0:
        return False
    if any(isinstance(e, dict) and str(e.get("f", "")).endswith("cur_fragment_id") for e in p):
        return True
    q = c.canon(p)
    if any(isinstance(e, dict) and str(e.get("f", "")).endswith("cur_fragment_id") for e in q):
        return True
    if len(p) == 1:
        d = c.single_def(p[0])
        if d and d[0] == "assign":
            rv = d[3]["rv"]
            if rv["r"] == "bin" and rv["op"].startswith("Shr") and rv["b"].get("v") == 32:
                return True
            if rv["r"] == "use":
                return _is_fragment_id(c, rv["op"], depth - 1)
    return False


def _back(c, target, stop=None):
    """Blocks from which `target` is reachable without passing through `stop`."""
    seen, work = {target}, [target]
    while work:
        x = work.pop()
        for y in c.pred[x]:
            if y not in seen and y != stop:
                seen.add(y)
                work.append(y)
    return seen


def check_fragment_ids_are_labels(db, chk):
    R = "INV-fragment-ids-are-labels"
    chk.rule(R, "zone / block trainers find fragment boundaries by comparing fragment ids, never by arithmetic on them")
    for pat, file, flush in ((r"ZoneMapIndexBuilder::train$", "lance-index/src/scalar/zonemap.rs", "new_map"),
                             (r"BloomFilterIndexBuilder::train$", "lance-index/src/scalar/bloomfilter.rs", "new_block")):
        f = db.one(pat, file=file)
        name = f.path.split("::")[-2]
        arith, cmps = [], []
        for g in f.family():
            chk.analysed(g)
            c = g.cfg
            for i, j, s in c.stmts():
                rv = s.get("rv") or {}
                if rv.get("r") != "bin":
                    continue
                fa, fb = _is_fragment_id(c, rv["a"]), _is_fragment_id(c, rv["b"])
                if rv["op"].startswith(("Add", "Sub", "Mul")) and (fa or fb):
                    arith.append((g, s))
                if rv["op"] in ("Eq", "Ne") and (fa or fb):
                    cmps.append((g, s))
        # fragment ids are sparse labels (fragments are deleted and compacted away): `current + 1` is not "the next fragment"
        # and `current - 1` is not "the previous one"; a boundary is where the id *differs*
        chk.ob(R, "%s:no-arithmetic" % name, not arith,
               "%s::train performs no arithmetic on a fragment id (%s)" % (name, "none" if not arith else "at line(s) %s" % sorted({s["ln"] for _, s in arith})),
               arith[0][0].loc(arith[0][1]["ln"]) if arith else f.loc())
        # typestate: a zone never spans two fragments, so the trainer's notion of "current fragment" may only change while the
        # current zone is empty -- right after a test that cur_zone_offset is 0, or after the zone was flushed
        body = user_body(db, f, marker=flush)
        c = body.cfg

        def _fld(p, suffix):
            return bool(p) and any(isinstance(e, dict) and str(e.get("f", "")).endswith(suffix) for e in p)
        stores = [(i, s) for i, j, s in c.stmts() if _fld(s.get("lhs"), "cur_fragment_id")]
        incs = {i for i, j, s in c.stmts() if _fld(s.get("lhs"), "cur_zone_offset")}
        flushes = [b for b, _ in calls(body, "Builder::" + flush)]
        tests = []      # (switch block, target taken when the zone is NOT empty)
        for b in sorted(c.reach0):
            si = c.switch_info(b)
            d = c.bool_def(b) if si and si["kind"] == "bool" else None
            if not (d and d[0] == "assign" and d[3]["rv"]["r"] == "bin" and d[3]["rv"]["b"].get("v") == 0):
                continue
            pa = op_place(d[3]["rv"]["a"])
            if not (pa and _fld(c.canon(pa), "cur_zone_offset")):
                continue
            op = d[3]["rv"]["op"]
            if op == "Eq":
                tests.append((b, si["label_to"][False]))
            elif op in ("Gt", "Ne"):
                tests.append((b, si["label_to"][True]))
        chk.floor(R, "%s: stores to cur_fragment_id" % name, len(stores), 2)
        for n, (sb, s) in enumerate(stores, 1):
            ok = False
            for w, nonempty in tests:
                if not c.dominates(w, sb):
                    continue
                # (a path that comes back to the test itself is tested again: stop there)
                if sb in c.reachable_from([nonempty], include_start=True, avoid=flushes + [w]):
                    continue
                between = (c.reachable_from([w], include_start=False, avoid=[w]) & _back(c, sb, stop=w)) - {sb}
                if between & incs:
                    continue
                ok = True
            chk.ob(R, "%s:fragment-changes-on-empty-zone:%d" % (name, n), ok,
                   "%s::train assigns cur_fragment_id (#%d) only when the current zone is empty (tested cur_zone_offset against 0, or flushed with %s, "
                   "with no rows added in between): %s" % (name, n, flush, ok), body.loc(s["ln"]))
        direct = [(g, s) for g, s in cmps if _is_fragment_id(g.cfg, s["rv"]["a"]) and _is_fragment_id(g.cfg, s["rv"]["b"])]
        chk.ob(R, "%s:boundary-by-comparison" % name, bool(direct),
               "%s::train compares a row's fragment id (row_addr >> 32) directly with the current fragment id (%d comparison(s))" % (name, len(direct)),
               direct[0][0].loc(direct[0][1]["ln"]) if direct else f.loc())


def search_fn(db, file):
    fs = [f for f in db.fns.values() if f.file.endswith(file) and f.kind == "method" and
          (f.r.get("impl_trait") or "").endswith("scalar::ScalarIndex") and f.path.endswith("::search")]
    if len(fs) != 1:
        raise AnchorMissing("expected one ScalarIndex::search in %s, found %d" % (file, len(fs)))
    return fs[0]


def check_search_kinds(db, chk):
    R = "INV-result-kinds"
    chk.rule(R, "inexact indices construct only upper-bound results (or trivially empty Exact/AtLeast)")
    for file, allow_empty in (("lance-index/src/scalar/zonemap.rs", False), ("lance-index/src/scalar/bloomfilter.rs", False),
                              ("lance-index/src/scalar/ngram.rs", True)):
        f = search_fn(db, file)
        n = 0
        for k in f.family():
            chk.analysed(k)
            c = k.cfg
            for i, j, s in c.aggregates(adt="scalar::SearchResult"):
                n += 1
                var = s["rv"]["variant"]
                if var == "AtMost":
                    chk.ob(R, "%s:AtMost:%d" % (file.split("/")[-1], n), True, "constructs SearchResult::AtMost", k.loc(s["ln"]))
                    continue
                e = expr_of(k, s["rv"]["ops"][0])
                empty = e[0] == "call" and e[1].endswith("RowIdTreeMap::new") and not e[2]
                chk.ob(R, "%s:%s:%d" % (file.split("/")[-1], var, n), allow_empty and empty,
                       "constructs SearchResult::%s(%s) in an inexact index (allowed only: AtMost(..)%s)" % (
                           var, "RowIdTreeMap::new()" if empty else "non-empty / computed set", ", or Exact/AtLeast of a fresh empty set" if allow_empty else ""),
                       k.loc(s["ln"]))
        chk.floor(R, "SearchResult constructions in %s" % file.split("/")[-1], n, 1)
    R2 = "ORIGIN-recheck"
    chk.rule(R2, "inexact indices' query parsers demand a recheck")
    for file, parser in (("lance-index/src/scalar/zonemap.rs", "SargableQueryParser::new"), ("lance-index/src/scalar/bloomfilter.rs", "BloomFilterQueryParser::new"),
                         ("lance-index/src/scalar/ngram.rs", "TextQueryParser::new")):
        fs = [f for f in db.fns.values() if f.file.endswith(file) and f.path.endswith("::new_query_parser") and f.kind == "method"]
        if not fs:
            raise AnchorMissing("new_query_parser not found in %s" % file)
        for f in fs:
            chk.analysed(f)
            cs = calls(f, parser)
            ok = len(cs) == 1 and cs[0][1]["args"][1].get("v") is True
            chk.ob(R2, file.split("/")[-1], ok, "%s(_, needs_recheck=%s) (required: true)" % (parser, cs[0][1]["args"][1].get("v") if cs else "?"), f.loc())
    # the parsers store the flag they are given into every query they build
    for pname in ("SargableQueryParser", "BloomFilterQueryParser", "TextQueryParser"):
        impls = [f for f in db.fns.values() if f.file.endswith("lance-index/src/scalar/expression.rs") and f.kind == "method" and
                 "%s as scalar::expression::ScalarQueryParser" % pname in f.path and "::visit_" in f.path]
        n = 0
        for f in impls:
            for b, t in calls(f, "IndexedExpression::index_query_with_recheck"):
                n += 1
                o = f.cfg.op_origins(t["args"][3])
                chk.ob(R2, "%s::%s" % (pname, f.path.split("::")[-1]), ("field", "needs_recheck") in o,
                       "%s passes self.needs_recheck to the query it builds" % f.path.split("::")[-1], f.loc(t["ln"]))
            plain = calls(f, "IndexedExpression::index_query")
            plain = [x for x in plain if "with_recheck" not in name_of(x[1])]
            chk.ob(R2, "%s::%s:no-plain-query" % (pname, f.path.split("::")[-1]), not plain,
                   "no query is built with the default needs_recheck=false in %s" % f.path.split("::")[-1], f.loc())
        chk.floor(R2, "recheck-carrying queries built by %s" % pname, n, 1)


def arm_regions(c, adt_suffix):
    """[(switch_bb, {variant: exclusive region})] for every switch on the discriminant of an `adt_suffix` value."""
    out = []
    for b in sorted(c.reach0):
        si = c.switch_info(b)
        if si and si["kind"] == "enum" and (si["adt"] or "").endswith(adt_suffix):
            regs = {}
            for v, t in si["label_to"].items():
                others = {x for x in si["label_to"].values() if x != t}
                regs[v] = c.reachable_from([t], include_start=True, avoid=others)
            out.append((b, si, regs))
    return out


def check_consumers(db, chk):
    R = "ARMS-consumer"
    chk.rule(R, "FilteredReadExec: per result kind, which rows are read and which filter is applied")
    FR = "lance/src/io/exec/filtered_read.rs"
    ap = db.one(r"apply_index_to_fragment$", file=FR)
    chk.analysed(ap)
    c = ap.cfg
    sws = arm_regions(c, "IndexExprResult")
    if len(sws) != 1:
        raise AnchorMissing("apply_index_to_fragment: expected one match on IndexExprResult, found %d" % len(sws))
    b, si, regs = sws[0]
    ins = [(bb, t) for bb, t in c.calls() if has_name(t, "HashMap::<K, V, S, A>::insert", "HashMap<K, V, S, A>>::insert", "::insert")]
    # parameter indexes: fragments_to_read = 7, scan_push_down_fragments_to_read = 8 (1-based locals)
    names = {i: l.get("name") for i, l in enumerate(ap.locals)}
    for kind in ("Exact", "AtMost", "AtLeast"):
        reg = regs.get(kind, set())
        to_read_ins = []
        push_ins = []
        for bb, t in ins:
            if bb not in reg:
                continue
            recv = c.op_origins(t["args"][0])
            tgt = None
            for o in recv:
                if o[0] == "arg" and names.get(o[1]) in ("fragments_to_read", "scan_push_down_fragments_to_read"):
                    tgt = names[o[1]]
            if tgt == "fragments_to_read":
                to_read_ins.append(t)
            elif tgt == "scan_push_down_fragments_to_read":
                push_ins.append(t)
        chk.ob(R, "reads-recorded:%s" % kind, len(to_read_ins) == 1, "arm %s records the ranges to read exactly once (%d)" % (kind, len(to_read_ins)), ap.loc())
        if len(to_read_ins) == 1:
            o = c.op_origins(to_read_ins[0]["args"][2], transparent=lambda t: not has_name(t, "intersect_ranges"))
            restricted = origin_has_call(o, "intersect_ranges")
            if kind == "AtLeast":
                chk.ob(R, "AtLeast-reads-all-candidates", not restricted,
                       "for an AtLeast result the ranges to read are %s; the mask of an AtLeast result lists only guaranteed rows, so restricting "
                       "the read to it drops every matching row that is not guaranteed (required: read all candidate ranges and recheck)" % (
                           "restricted to intersect_ranges(to_read, mask)" if restricted else "not restricted by the mask"), ap.loc(to_read_ins[0]["ln"]))
            else:
                chk.ob(R, "%s-restricts-to-mask" % kind, True, "for %s the read is %s (allowed: rows outside the mask cannot match)" % (
                    kind, "restricted to the mask" if restricted else "not restricted"), ap.loc(to_read_ins[0]["ln"]))
        if kind == "AtMost":
            chk.ob(R, "AtMost-no-limit-pushdown", not push_ins, "skip/take is not pushed down for AtMost results (%d push-down inserts)" % len(push_ins), ap.loc())
    # plan_scan filter choice
    ps = [f for f in db.fns.values() if f.file.endswith(FR) and f.kind in ("fn", "method") and "plan_scan" in f.path.split("::")[-1]]
    found = False
    for f in ps:
        for k in f.family():
            kc = k.cfg
            for b2, si2, regs2 in arm_regions(kc, "IndexExprResult"):
                # arms that clone refine_filter vs full_filter
                def uses(reg, field):
                    for bb in reg:
                        for s in kc.blocks[bb]["st"]:
                            rv = s.get("rv") or {}
                            for p in ([rv.get("place")] if rv.get("place") else []) + ([op_place(rv["op"])] if rv.get("op") and op_place(rv["op"]) else []):
                                if any(isinstance(e, dict) and e.get("f") == field for e in p):
                                    return True
                    return False
                if not any(uses(r, "refine_filter") or uses(r, "full_filter") for r in regs2.values()):
                    continue
                found = True
                chk.analysed(k)
                chk.ob(R, "filter:Exact->refine", uses(regs2.get("Exact", set()), "refine_filter"), "Exact results apply only the refine filter", k.loc())
                chk.ob(R, "filter:AtMost->full", uses(regs2.get("AtMost", set()), "full_filter") and not uses(regs2.get("AtMost", set()) - regs2.get("AtLeast", set()) - regs2.get("Exact", set()), "refine_filter"),
                       "AtMost results are rechecked with the full filter", k.loc())
                # AtLeast may use refine_filter only under a boolean guard (limit push-down)
                al = regs2.get("AtLeast", set())
                guarded = True
                if uses(al, "refine_filter"):
                    guarded = any(kc.switch_info(x) and kc.switch_info(x)["kind"] == "bool" for x in al)
                chk.ob(R, "filter:AtLeast->full-unless-pushdown", uses(al, "full_filter") and guarded,
                       "AtLeast results use the full filter unless the limit push-down flag is set", k.loc())
    chk.ob(R, "filter-choice-found", found, "the per-fragment filter choice (match on the result kind) was located in plan_scan", ap.loc())


def check_scanner_recheck(db, chk):
    R = "TABLE-scanner-recheck"
    chk.rule(R, "Scanner: needs_recheck implies a post-index filter")
    SC = "lance/src/dataset/scanner.rs"
    fs = [f for f in db.fns.values() if f.file.endswith(SC) and "scalar_indexed_scan" in f.path.split("::")[-1] and f.kind in ("fn", "method")]
    if not fs:
        raise AnchorMissing("Scanner::scalar_indexed_scan not found")
    hit = False
    for f in fs:
        for k in f.family():
            cs = [x for x in calls(k, "ScalarIndexExpr::needs_recheck")]
            for b, t in cs:
                chk.analysed(k)
                hit = True
                kc = k.cfg
                # the local that holds the post-index filter: an Option<Expr> assigned Some/None in the arms of a match
                # whose scrutinee contains needs_recheck (possibly as a tuple component)
                pf = [i for i, l in enumerate(k.locals) if l.get("name") == "post_take_filter" and "Option" in l["ty"]]
                if len(pf) != 1:
                    chk.ob(R, "recheck=>post-filter", False, "the post-index filter local was not found (%d candidates)" % len(pf), k.loc(t["ln"]))
                    continue
                defs = [df for df in kc.defs[pf[0]]["whole"] if df[0] == "assign" and df[1] in kc.reach0 and df[3]["rv"]["r"] == "agg"]
                sws = []
                for x in sorted(kc.reach0):
                    si = kc.switch_info(x)
                    if not si or si["kind"] != "bool" or not all(kc.dominates(x, df[1]) for df in defs):
                        continue
                    e = expr_of(k, kc.blocks[x]["term"]["on"])
                    if e[0] == "call" and e[1].endswith("needs_recheck"):
                        sws.append(x)
                ok = False
                det = "no branch on needs_recheck dominates the choice of the post-index filter"
                for x in sws:
                    tg = kc.switch_info(x)["label_to"]
                    r_t = kc.reachable_from([tg[True]], include_start=True, avoid=[tg[False]])
                    on_true = [df for df in defs if df[1] in r_t]
                    ok = bool(on_true) and all(df[3]["rv"]["variant"] == "Some" for df in on_true)
                    det = "on the needs_recheck side the post-index filter is %s" % sorted({df[3]["rv"]["variant"] for df in on_true})
                chk.ob(R, "recheck=>post-filter", ok, "%s (required: always Some(filter))" % det, k.loc(t["ln"]))
    chk.ob(R, "needs_recheck-consulted", hit, "scalar_indexed_scan consults ScalarIndexExpr::needs_recheck", fs[0].loc())


def check_zone_statistics_accumulate(db, chk):
    """A zone is filled by SEVERAL update_stats calls (the trainer cuts the stream into chunks regardless of zone and fragment
    boundaries).  Whatever update_stats records about the current zone in a plain field (`has_null`, null / NaN counts) must
    therefore be combined with what the field already holds; a plain overwrite forgets the earlier slices of the zone, and a
    zone that looks NULL-free is skipped by IS NULL although it holds the row."""
    R = "INV-zone-statistics-accumulate"
    chk.rule(R, "every field of the builder that update_stats stores is computed from its previous value (data or control dependence): "
                "`x = x || seen`, `x += n`, never `x = seen`")
    n = 0
    for f in sorted(db.fns.values(), key=lambda f: (f.file, f.line)):
        if not (f.focus and f.path.endswith("::update_stats") and ("scalar/bloomfilter" in f.file or "scalar/zonemap" in f.file)):
            continue
        chk.analysed(f)
        c = f.cfg
        for i, j, st in c.stmts():
            lhs = st.get("lhs")
            if not (lhs and len(lhs) > 1 and lhs[0] == 1):
                continue
            flds = [e["f"] for e in lhs[1:] if isinstance(e, dict) and "f" in e]
            if not flds:
                continue
            rv = st["rv"]
            o = set()
            for k in ("op", "a", "b"):
                if k in rv:
                    o |= c.op_origins(rv[k], transparent=lambda t_: True)
                    o |= c.op_control_origins(rv[k], transparent=lambda t_: True)
            n += 1
            who = f.path.split("::")[-2]
            chk.ob(R, "%s.%s" % (who, flds[-1]), ("field", flds[-1]) in o,
                   "%s::update_stats stores self.%s %s" % (who, flds[-1], "from its previous value and the new slice" if ("field", flds[-1]) in o else
                                                          "without looking at its previous value: the statistics of the earlier slices of the zone are lost"),
                   f.loc(st.get("ln")))
    chk.floor(R, "zone statistics stored by update_stats", n, 3)


def run(db, chk):
    check_zone_statistics_accumulate(db, chk)
    check_search_kinds(db, chk)
    check_consumers(db, chk)
    check_scanner_recheck(db, chk)
    check_prune_looks_at_predicate(db, chk)
    check_fragment_ids_are_labels(db, chk)
    chk.assume("an AtMost(M) leaf result really is a superset of the matching rows (index contents are not analysed)")

"""C03 Concurrent transactions serialize (decision-table lower bound + rebase wiring).

The behaviour (final table = some serial replay) is not decidable statically.  Decided:
  ARMS   the 15 x 15 conflict decision table extracted from TransactionRebase::check_txn and its check_*_txn callees
         satisfies necessary conditions derived from what build_manifest does with each operation (table ORACLE below):
         cells that must never be unconditionally compatible, and cells whose decision must depend on both footprints.
         Over-conflicting is always safe for this property, so only lower bounds are required.
  ARMS   no cell can end in `wrong_operation_err` (dispatch and checker agree) and every cell has an outcome
  ARMS   TransactionRebase::try_new populates modified_fragment_ids for every operation whose checker consults it
  DOM    commit_transaction: every transaction returned by load_and_sort_new_transactions is passed to check_txn before
         finish; the transaction handed to build_manifest / write_manifest_file is the result of rebase.finish; the
         manifest is built against the dataset re-loaded in the same iteration
Not decided: that conditional arms compute the right overlap; the rebase arithmetic; liveness of retries.
"""
from engine.cfg import op_place
from engine.facts import AnchorMissing
from . import matrix
from .common import user_body, calls, one_call, name_of, has_name, origin_has_call, origin_calls, ok_targets

LEVEL = "other"

DATA_OPS = ("Append", "Delete", "Update", "Merge", "Rewrite", "CreateIndex", "DataReplacement", "Project")

# (self, other) -> reason : must not be unconditionally compatible
NOT_ALWAYS_OK = {}
for s in DATA_OPS:
    for o in ("Overwrite", "Restore"):
        NOT_ALWAYS_OK[(s, o)] = "the fragment list / schema %s was computed on no longer exists after %s" % (s, o)
for s in ("Delete", "Update"):
    NOT_ALWAYS_OK[(s, "Merge")] = "Merge publishes a full replacement fragment list; %s's whole-fragment metadata would undo it" % s
for o in ("Append", "Delete", "Update", "Rewrite", "Merge", "DataReplacement"):
    NOT_ALWAYS_OK[("Merge", o)] = "Merge.fragments is a full replacement list computed at the read version; a concurrent %s would be lost" % o
NOT_ALWAYS_OK[("Project", "Merge")] = "both rewrite the schema"
NOT_ALWAYS_OK[("Project", "Project")] = "both rewrite the schema"
NOT_ALWAYS_OK[("Merge", "Project")] = "both rewrite the schema"
NOT_ALWAYS_OK[("Rewrite", "Merge")] = "Merge replaced the fragments the rewrite compacted"
NOT_ALWAYS_OK[("UpdateConfig", "UpdateConfig")] = "two writers of the same config / metadata key"
NOT_ALWAYS_OK[("UpdateBases", "UpdateBases")] = "two writers registering the same base id / name / path"

# (self, other) -> (required deps, reason): must not be ALWAYS_OK, and when CONDITIONAL the deciding code must read
# every listed field group (any one name of each group).
DEPENDS = {}


def _dep(s, o, groups, reason):
    DEPENDS[(s, o)] = (groups, reason)


for s in ("Delete", "Update"):
    for o, rem in (("Delete", "Delete.deleted_fragment_ids"), ("Update", "Update.removed_fragment_ids")):
        _dep(s, o, [["modified_fragment_ids"], [o + ".updated_fragments"], [rem]],
             "row-level changes to the same fragment must be detected from both fragment footprints")
    _dep(s, "Rewrite", [["modified_fragment_ids"], ["Rewrite.groups"]], "compaction of a fragment this operation modified")
    _dep(s, "DataReplacement", [["modified_fragment_ids"], ["DataReplacement.replacements"]],
         "whole-fragment metadata of this operation would undo the replaced data file")
for o, rem in (("Delete", "Delete.deleted_fragment_ids"), ("Update", "Update.removed_fragment_ids")):
    _dep("Rewrite", o, [["modified_fragment_ids"], [o + ".updated_fragments"], [rem]], "rows changed in a fragment being compacted")
_dep("Rewrite", "Rewrite", [["modified_fragment_ids"], ["Rewrite.groups"]], "two compactions of the same fragment")
_dep("Rewrite", "DataReplacement", [["DataReplacement.replacements"], ["old_fragments", "modified_fragment_ids", "Rewrite.groups"]],
     "data file replaced in a fragment being compacted")
_dep("DataReplacement", "Rewrite", [["Rewrite.groups"], ["DataReplacement.replacements", "modified_fragment_ids", "id"]],
     "fragment compacted away under a data replacement")
_dep("DataReplacement", "DataReplacement", [["DataReplacement.replacements"], ["fields"]], "same field of the same fragment replaced twice")


def classify_ok(cell, key):
    return cell["class"] != "ALWAYS_OK"


def check_matrix(db, chk, which="C03", extra_depends=None, only=None):
    R = "ARMS-matrix"
    chk.rule(R, "outcome class and decision dependencies per (self op, other op) from constrained reachability over the "
                "Operation discriminant switches; compared with lower-bound oracle")
    variants, fields, disp_fn, disp, M = matrix.extract_matrix(db)
    chk.analysed(disp_fn)
    for v, t in disp.items():
        if t != "OK":
            chk.analysed(t)
    chk.floor(R, "classified (self, other) pairs", len(M), 225)
    chk.floor(R, "Operation variants", len(variants), 15)
    table = {}
    for (s, o), cell in M.items():
        table["%s|%s" % (s, o)] = {"class": cell["class"], "deps": cell["deps"], "checker": cell["checker"]}
    chk.extra["conflict_matrix"] = table
    chk.extra["matrix_legend"] = "rows: the committing (self) operation; columns: an operation committed since its read version"
    # every cell has an outcome, none reaches wrong_operation_err
    for (s, o), cell in sorted(M.items()):
        if only and (s, o) not in only:
            continue
        ok = cell["class"] != "NO_OUTCOME" and "WRONG_OP" not in cell["outcomes"]
        if not ok or not only:
            chk.ob(R, "cell-wellformed:%s/%s" % (s, o), ok, "%s vs %s -> %s %s" % (s, o, cell["class"], cell["outcomes"]))
    return variants, M


def apply_oracle(chk, M, not_ok, depends, R="ARMS-oracle"):
    chk.rule(R, "lower bounds: cells that must conflict or be conditional; required decision dependencies")
    for (s, o), reason in sorted(not_ok.items()):
        cell = M.get((s, o))
        if cell is None:
            chk.ob(R, "must-conflict:%s/%s" % (s, o), False, "cell missing from extracted matrix")
            continue
        chk.ob(R, "must-conflict:%s/%s" % (s, o), cell["class"] != "ALWAYS_OK",
               "%s committing after a concurrent %s is %s [%s]; required: never unconditionally compatible (%s)" % (
                   s, o, cell["class"], cell["checker"], reason))
    for (s, o), (groups, reason) in sorted(depends.items()):
        cell = M.get((s, o))
        if cell is None:
            chk.ob(R, "must-depend:%s/%s" % (s, o), False, "cell missing from extracted matrix")
            continue
        if cell["class"] == "ALWAYS_OK":
            chk.ob(R, "must-depend:%s/%s" % (s, o), False,
                   "%s vs concurrent %s is unconditionally compatible [%s]; required: decision depends on %s (%s)" % (
                       s, o, cell["checker"], groups, reason))
            continue
        if cell["class"] != "CONDITIONAL":
            chk.ob(R, "must-depend:%s/%s" % (s, o), True, "%s vs %s always conflicts (%s): stricter than required" % (s, o, cell["class"]))
            continue
        missing = [g for g in groups if not any(n in cell["deps"] for n in g)]
        chk.ob(R, "must-depend:%s/%s" % (s, o), not missing,
               "%s vs concurrent %s is CONDITIONAL on %s; missing required dependency group(s) %s (%s)" % (
                   s, o, [d for d in cell["deps"] if "." in d or "_" in d], missing, reason))
        chk.sample({"pair": "%s/%s" % (s, o), "class": cell["class"], "deps": cell["deps"], "lines": cell["lines"]})


def check_try_new(db, chk, M):
    R = "ARMS-try_new"
    chk.rule(R, "TransactionRebase::try_new fills modified_fragment_ids for every operation whose checker reads it")
    f = db.one(r"^io::commit::conflict_resolver::TransactionRebase::<'a>::try_new$", file=matrix.RESOLVER)
    body = user_body(db, f)
    chk.analysed(body)
    c = body.cfg
    sws = [b for b in sorted(c.reach0) if matrix._is_op_switch(c.switch_info(b))]
    if not sws:
        raise AnchorMissing("try_new: no match on Operation")
    si = c.switch_info(sws[0])
    users = sorted({s for (s, o), cell in M.items() if "modified_fragment_ids" in cell["deps"]})
    chk.floor(R, "operations whose checker reads modified_fragment_ids", len(users), 3)
    for var in users:
        tgt = si["label_to"].get(var)
        others = {t for v, t in si["label_to"].items() if t != tgt}
        r = c.reachable_from([tgt], include_start=True, avoid=others)
        filled = False
        for i, j, s in c.aggregates(adt="TransactionRebase"):
            if i not in r:
                continue
            rv = s["rv"]
            op = rv["ops"][rv["fields"].index("modified_fragment_ids")]
            org = c.op_origins(op)
            # empty set = HashSet::new(); filled = collected from the operation's fragment ids
            if origin_has_call(org, "Iterator::collect", "FromIterator", "::collect"):
                filled = True
        chk.ob(R, "fills:%s" % var, filled, "try_new arm for %s builds modified_fragment_ids from the operation (collect): %s" % (var, filled),
               body.loc())


def check_commit_wiring(db, chk):
    R = "DOM-rebase"
    chk.rule(R, "commit_transaction: every concurrent transaction is checked before finish; the rebased transaction and the "
                "re-loaded dataset feed build_manifest")
    f = db.one(r"^io::commit::commit_transaction$", file="lance/src/io/commit.rs")
    body = user_body(db, f, marker="dataset::write_manifest_file")
    chk.analysed(body)
    c = body.cfg
    load = one_call(body, "io::commit::load_and_sort_new_transactions")
    chk_call = one_call(body, "TransactionRebase::<'a>::check_txn")
    fin = [(b, t) for b, t in calls(body, "TransactionRebase::<'a>::finish") if "{closure" not in name_of(t)]
    tryn = [(b, t) for b, t in calls(body, "TransactionRebase::<'a>::try_new") if "{closure" not in name_of(t)]
    bm = one_call(body, "Transaction::build_manifest")
    wm = [(b, t) for b, t in calls(body, "dataset::write_manifest_file") if "{closure" not in name_of(t)]
    if len(fin) != 1 or len(tryn) != 1 or len(wm) != 1:
        raise AnchorMissing("commit_transaction: finish=%d try_new=%d write_manifest_file=%d" % (len(fin), len(tryn), len(wm)))
    fin, tryn, wm = fin[0], tryn[0], wm[0]
    chk.ob(R, "load<try_new<finish", c.dominates(load[0], tryn[0]) and c.dominates(tryn[0], fin[0]),
           "load_and_sort_new_transactions < try_new < finish on every path", body.loc(fin[1]["ln"]))
    # loop shape: check_txn sits in a loop driven by Iterator::next over the loaded vector, and finish is reached only via
    # the loop's None exit
    nexts = [(b, t) for b, t in c.calls() if has_name(t, "Iterator>::next", "Iterator::next") and c.dominates(tryn[0], b) and c.dominates(b, chk_call[0])]
    ok_loop = False
    det = "no iterator loop around check_txn"
    for nb, nt in nexts:
        oks, errs, sws = ok_targets(c, nb)   # Some -> body, None -> exit
        if not sws:
            continue
        # check_txn under the Some arm; finish not reachable from try_new without passing this `next`
        some_reach = c.reachable_from(list(oks), include_start=True)
        r_wo = c.reachable_from([tryn[0]], avoid=[nb])
        org = c.op_origins(nt["args"][0], transparent=lambda t: True)
        from_loaded = any(o[0] == "call" and "load_and_sort_new_transactions" in (o[1] or "") for o in org) or \
            origin_has_call(org, "load_and_sort_new_transactions")
        ok_loop = chk_call[0] in some_reach and fin[0] not in r_wo
        det = "check_txn in loop body: %s; finish only after the iterator is exhausted: %s; iterator over loaded transactions: %s" % (
            chk_call[0] in some_reach, fin[0] not in r_wo, from_loaded)
        ok_loop = ok_loop and from_loaded
        if ok_loop:
            break
    chk.ob(R, "all-concurrent-txns-checked", ok_loop, det, body.loc(chk_call[1]["ln"]))
    # check_txn's error propagates (its result is branched on and the Err edge does not reach finish)
    oks, errs, sws = ok_targets(c, chk_call[0])
    r_err = c.reachable_from(list(errs), include_start=True) if errs else set()
    chk.ob(R, "conflict-propagates", bool(sws) and wm[0] not in r_err and fin[0] not in r_err,
           "a conflict reported by check_txn leaves the attempt without publishing", body.loc(chk_call[1]["ln"]))
    # transaction passed to build_manifest / write_manifest_file originates from finish()
    o_self = c.op_origins(bm[1]["args"][0])
    chk.ob(R, "build_manifest-self<-finish", origin_has_call(o_self, "TransactionRebase::<'a>::finish"),
           "build_manifest is invoked on a transaction originating from %s" % [x for x in origin_calls(o_self) if "conflict" in x or "clone" in x.lower()],
           body.loc(bm[1]["ln"]))
    o_tx = c.op_origins(wm[1]["args"][7])
    chk.ob(R, "write_manifest_file-txn<-finish", origin_has_call(o_tx, "TransactionRebase::<'a>::finish"),
           "the transaction embedded in the manifest originates from rebase.finish", body.loc(wm[1]["ln"]))
    # manifest built against the dataset re-loaded in this iteration
    o_cur = c.op_origins(bm[1]["args"][1])
    chk.ob(R, "build_manifest-current<-reloaded", origin_has_call(o_cur, "load_and_sort_new_transactions") and ("field", "manifest") in o_cur,
           "build_manifest's current manifest originates from the dataset returned by load_and_sort_new_transactions", body.loc(bm[1]["ln"]))
    fin_ds = c.op_origins(fin[1]["args"][1])
    chk.ob(R, "finish-on-reloaded", origin_has_call(fin_ds, "load_and_sort_new_transactions"),
           "rebase.finish runs against the re-loaded dataset", body.loc(fin[1]["ln"]))
    chk.sample({"commit_transaction": {"load": load[0], "try_new": tryn[0], "check_txn": chk_call[0], "finish": fin[0],
                                       "build_manifest": bm[0], "write_manifest_file": wm[0]}})


def run(db, chk):
    variants, M = check_matrix(db, chk)
    apply_oracle(chk, M, NOT_ALWAYS_OK, DEPENDS)
    check_try_new(db, chk, M)
    check_commit_wiring(db, chk)
    chk.info("the conflict matrix in transaction.rs' module documentation is not used as an oracle (it disagrees with the code, "
             "e.g. Append vs Merge)")
    chk.assume("strict-overwrite mode (num_retries = 0) deliberately skips conflict resolution")

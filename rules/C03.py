"""C03 Concurrent transactions serialize (decision-table lower bound + rebase wiring).

The behaviour (final table = some serial replay) is not decidable statically.  Decided:
  ARMS   the 15 x 15 conflict decision table extracted from TransactionRebase::check_txn and its check_*_txn callees
         satisfies necessary conditions derived from what build_manifest does with each operation (table ORACLE below):
         cells that must never be unconditionally compatible, and cells whose decision must depend on both footprints.
         Over-conflicting is always safe for this property, so only lower bounds are required.
  ARMS   no cell can end in `wrong_operation_err` (dispatch and checker agree) and every cell has an outcome
  ARMS   TransactionRebase::try_new populates modified_fragment_ids for every operation whose checker consults it
  DOM    commit_transaction: every transaction returned by load_and_sort_new_transactions is passed to check_txn before
         finish; the transaction handed to build_manifest / write_manifest_file is the result of rebase.finish; the
         manifest is built against the dataset re-loaded in the same iteration
Not decided: that conditional arms compute the right overlap; the rebase arithmetic; liveness of retries.
"""
from engine.cfg import op_place
from engine.facts import AnchorMissing
from . import matrix
from .common import user_body, calls, one_call, name_of, has_name, origin_has_call, origin_calls, ok_targets

LEVEL = "other"

DATA_OPS = ("Append", "Delete", "Update", "Merge", "Rewrite", "CreateIndex", "DataReplacement", "Project")

# (self, other) -> reason : must not be unconditionally compatible
NOT_ALWAYS_OK = {}
for s in DATA_OPS:
    for o in ("Overwrite", "Restore"):
        NOT_ALWAYS_OK[(s, o)] = "the fragment list / schema %s was computed on no longer exists after %s" % (s, o)
for s in ("Delete", "Update"):
    NOT_ALWAYS_OK[(s, "Merge")] = "Merge publishes a full replacement fragment list; %s's whole-fragment metadata would undo it" % s
for o in ("Append", "Delete", "Update", "Rewrite", "Merge", "DataReplacement"):
    NOT_ALWAYS_OK[("Merge", o)] = "Merge.fragments is a full replacement list computed at the read version; a concurrent %s would be lost" % o
NOT_ALWAYS_OK[("Project", "Merge")] = "both rewrite the schema"
NOT_ALWAYS_OK[("Project", "Project")] = "both rewrite the schema"
NOT_ALWAYS_OK[("Merge", "Project")] = "both rewrite the schema"
NOT_ALWAYS_OK[("Rewrite", "Merge")] = "Merge replaced the fragments the rewrite compacted"
NOT_ALWAYS_OK[("UpdateConfig", "UpdateConfig")] = "two writers of the same config / metadata key"
NOT_ALWAYS_OK[("UpdateBases", "UpdateBases")] = "two writers registering the same base id / name / path"

# (self, other) -> (required deps, reason): must not be ALWAYS_OK, and when CONDITIONAL the deciding code must read
# every listed field group (any one name of each group).
DEPENDS = {}


def _dep(s, o, groups, reason):
    DEPENDS[(s, o)] = (groups, reason)


for s in ("Delete", "Update"):
    for o, rem in (("Delete", "Delete.deleted_fragment_ids"), ("Update", "Update.removed_fragment_ids")):
        _dep(s, o, [["modified_fragment_ids"], [o + ".updated_fragments"], [rem]],
             "row-level changes to the same fragment must be detected from both fragment footprints")
    _dep(s, "Rewrite", [["modified_fragment_ids"], ["Rewrite.groups"]], "compaction of a fragment this operation modified")
    _dep(s, "DataReplacement", [["modified_fragment_ids"], ["DataReplacement.replacements"]],
         "whole-fragment metadata of this operation would undo the replaced data file")
for o, rem in (("Delete", "Delete.deleted_fragment_ids"), ("Update", "Update.removed_fragment_ids")):
    _dep("Rewrite", o, [["modified_fragment_ids"], [o + ".updated_fragments"], [rem]], "rows changed in a fragment being compacted")
_dep("Rewrite", "Rewrite", [["modified_fragment_ids"], ["Rewrite.groups"]], "two compactions of the same fragment")
_dep("Rewrite", "DataReplacement", [["DataReplacement.replacements"], ["old_fragments", "modified_fragment_ids", "Rewrite.groups"]],
     "data file replaced in a fragment being compacted")
_dep("DataReplacement", "Rewrite", [["Rewrite.groups"], ["DataReplacement.replacements", "modified_fragment_ids", "id"]],
     "fragment compacted away under a data replacement")
_dep("DataReplacement", "DataReplacement", [["DataReplacement.replacements"], ["fields"]], "same field of the same fragment replaced twice")


# operation -> the fields of the variant that name fragments existing at the read version which the operation changes or
# removes: TransactionRebase.modified_fragment_ids must be collected from all of them (reviewed against the enum)
TOUCHED_FIELDS = {
    "Delete": ("updated_fragments", "deleted_fragment_ids"),
    "Update": ("updated_fragments", "removed_fragment_ids"),
    "Rewrite": ("groups",),            # old_fragments of each group is read inside the flat_map closure
    "DataReplacement": ("replacements",),
    "Merge": ("fragments",),
}
ALL_TOUCHED = {x for v in TOUCHED_FIELDS.values() for x in v}


def _is_none(c, op):
    """The operand is a literal Option::None (the `affected_rows: None` short circuit)."""
    p = op_place(op)
    if p is None or len(p) != 1:
        return False
    d = c.single_def(p[0])
    return bool(d) and d[0] == "assign" and d[3]["rv"]["r"] == "agg" and (d[3]["rv"].get("adt") or "").endswith("option::Option") and d[3]["rv"]["variant"] == "None"


def _base_locals(c, l, limit=40):
    """Locals `l` is a copy / move / (re)borrow of, transitively (plain assignments only: no calls, no arithmetic)."""
    seen, work = set(), [l]
    while work and len(seen) < limit:
        x = work.pop()
        if x in seen:
            continue
        seen.add(x)
        for df in c.defs.get(x, {"whole": []})["whole"]:
            if df[0] != "assign":
                continue
            rv = df[3]["rv"]
            p = rv.get("place") if rv["r"] == "ref" else (op_place(rv["op"]) if rv["r"] == "use" else None)
            if p and all(e == "*" for e in p[1:]):
                work.append(p[0])
    return seen


def _same_source(c, a, b):
    """a and b are the same variable seen through moves / borrows (`&ids` handed to a call, `ids` moved into a struct)."""
    return bool({x for x in _base_locals(c, a) & _base_locals(c, b) if c.fn.locals[x].get("name")})


def classify_ok(cell, key):
    return cell["class"] != "ALWAYS_OK"


def check_matrix(db, chk, which="C03", extra_depends=None, only=None):
    R = "ARMS-matrix"
    chk.rule(R, "outcome class and decision dependencies per (self op, other op) from constrained reachability over the "
                "Operation discriminant switches; compared with lower-bound oracle")
    variants, fields, disp_fn, disp, M = matrix.extract_matrix(db)
    chk.analysed(disp_fn)
    for v, t in disp.items():
        if t != "OK":
            chk.analysed(t)
    chk.floor(R, "classified (self, other) pairs", len(M), 225)
    chk.floor(R, "Operation variants", len(variants), 15)
    table = {}
    for (s, o), cell in M.items():
        table["%s|%s" % (s, o)] = {"class": cell["class"], "deps": cell["deps"], "checker": cell["checker"]}
    chk.extra["conflict_matrix"] = table
    chk.extra["matrix_legend"] = "rows: the committing (self) operation; columns: an operation committed since its read version"
    # every cell has an outcome, none reaches wrong_operation_err
    for (s, o), cell in sorted(M.items()):
        if only and (s, o) not in only:
            continue
        ok = cell["class"] != "NO_OUTCOME" and "WRONG_OP" not in cell["outcomes"]
        if not ok or not only:
            chk.ob(R, "cell-wellformed:%s/%s" % (s, o), ok, "%s vs %s -> %s %s" % (s, o, cell["class"], cell["outcomes"]))
    return variants, M


def apply_oracle(chk, M, not_ok, depends, R="ARMS-oracle"):
    chk.rule(R, "lower bounds: cells that must conflict or be conditional; required decision dependencies")
    for (s, o), reason in sorted(not_ok.items()):
        cell = M.get((s, o))
        if cell is None:
            chk.ob(R, "must-conflict:%s/%s" % (s, o), False, "cell missing from extracted matrix")
            continue
        chk.ob(R, "must-conflict:%s/%s" % (s, o), cell["class"] != "ALWAYS_OK",
               "%s committing after a concurrent %s is %s [%s]; required: never unconditionally compatible (%s)" % (
                   s, o, cell["class"], cell["checker"], reason))
    for (s, o), (groups, reason) in sorted(depends.items()):
        cell = M.get((s, o))
        if cell is None:
            chk.ob(R, "must-depend:%s/%s" % (s, o), False, "cell missing from extracted matrix")
            continue
        if cell["class"] == "ALWAYS_OK":
            chk.ob(R, "must-depend:%s/%s" % (s, o), False,
                   "%s vs concurrent %s is unconditionally compatible [%s]; required: decision depends on %s (%s)" % (
                       s, o, cell["checker"], groups, reason))
            continue
        if cell["class"] != "CONDITIONAL":
            chk.ob(R, "must-depend:%s/%s" % (s, o), True, "%s vs %s always conflicts (%s): stricter than required" % (s, o, cell["class"]))
            continue
        missing = [g for g in groups if not any(n in cell["deps"] for n in g)]
        chk.ob(R, "must-depend:%s/%s" % (s, o), not missing,
               "%s vs concurrent %s is CONDITIONAL on %s; missing required dependency group(s) %s (%s)" % (
                   s, o, [d for d in cell["deps"] if "." in d or "_" in d], missing, reason))
        chk.sample({"pair": "%s/%s" % (s, o), "class": cell["class"], "deps": cell["deps"], "lines": cell["lines"]})


def check_try_new(db, chk, M):
    R = "ARMS-try_new"
    chk.rule(R, "TransactionRebase::try_new fills modified_fragment_ids for every operation whose checker reads it")
    f = db.one(r"^io::commit::conflict_resolver::TransactionRebase::<'a>::try_new$", file=matrix.RESOLVER)
    body = user_body(db, f)
    chk.analysed(body)
    c = body.cfg
    sws = [b for b in sorted(c.reach0) if matrix._is_op_switch(c.switch_info(b))]
    if not sws:
        raise AnchorMissing("try_new: no match on Operation")
    si = c.switch_info(sws[0])
    users = sorted({s for (s, o), cell in M.items() if "modified_fragment_ids" in cell["deps"]})
    chk.floor(R, "operations whose checker reads modified_fragment_ids", len(users), 3)
    for var in users:
        tgt = si["label_to"].get(var)
        others = {t for v, t in si["label_to"].items() if t != tgt}
        r = c.reachable_from([tgt], include_start=True, avoid=others)
        filled = False
        for i, j, s in c.aggregates(adt="TransactionRebase"):
            if i not in r:
                continue
            rv = s["rv"]
            op = rv["ops"][rv["fields"].index("modified_fragment_ids")]
            org = c.op_origins(op)
            # empty set = HashSet::new(); filled = collected from the operation's fragment ids
            if origin_has_call(org, "Iterator::collect", "FromIterator", "::collect"):
                filled = True
        chk.ob(R, "fills:%s" % var, filled, "try_new arm for %s builds modified_fragment_ids from the operation (collect): %s" % (var, filled),
               body.loc())
        # the set covers every fragment-id-carrying field of the variant that names *existing* fragments (reviewed table)
        need = TOUCHED_FIELDS.get(var)
        if need is None:
            chk.ob(R, "covers:%s" % var, False, "operation %s reads modified_fragment_ids in its checker but has no reviewed list of "
                   "touched-fragment fields (add it to TOUCHED_FIELDS after reading the variant)" % var, body.loc())
            continue
        from .C05 import _reaches_local
        full = []      # aggregates of this arm that keep affected_rows (= the row-level path), with their id-set local
        for i, j, s in c.aggregates(adt="TransactionRebase"):
            if i not in r:
                continue
            rv = s["rv"]
            have = dict(zip(rv["fields"], rv["ops"]))
            org = c.op_origins(have["modified_fragment_ids"], transparent=lambda t: True)
            flds = {x[1] for x in org if x[0] == "field"}
            chk.ob(R, "covers:%s@%s" % (var, "short-circuit" if _is_none(c, have["affected_rows"]) else "full"), set(need) <= flds,
                   "modified_fragment_ids of the %s arm is collected from the operation's %s (found %s)" % (var, sorted(need), sorted(flds & ALL_TOUCHED)),
                   body.loc(s["ln"]))
            if not _is_none(c, have["affected_rows"]):
                full.append((i, s, have))
        # the fragments snapshotted for the row-level check (initial_fragments) are selected by that very set: a fragment
        # that is modified but missing from initial_fragments can neither be marked for rewrite nor raise the removed-fragment conflict
        for i, s, have in full:
            p_ids = op_place(have["modified_fragment_ids"])
            oi = c.op_origins(have["initial_fragments"], transparent=lambda t: True)
            sites = [(b, t) for b, t in calls(body, "conflict_resolver::initial_fragments_for_rebase") if b in r]
            same = False
            for b, t in sites:
                pa = op_place(t["args"][2])
                if pa is not None and p_ids is not None:
                    same = same or _reaches_local(c, pa[0], {p_ids[0]}) or _reaches_local(c, p_ids[0], {pa[0]}) or _same_source(c, pa[0], p_ids[0])
            chk.ob(R, "snapshot-by-same-set:%s" % var, origin_has_call(oi, "initial_fragments_for_rebase") and bool(sites) and same,
                   "initial_fragments <- initial_fragments_for_rebase(dataset, txn, &<the set stored as modified_fragment_ids>) (%d site(s), same set: %s)" % (
                       len(sites), same), body.loc(s["ln"]))


def check_initial_fragments(db, chk):
    R = "INV-initial-fragments"
    chk.rule(R, "initial_fragments_for_rebase snapshots, at the transaction's read version, exactly the fragments whose id is in the given set")
    f = db.one(r"^io::commit::conflict_resolver::initial_fragments_for_rebase$", file=matrix.RESOLVER)
    body = user_body(db, f)
    chk.analysed(body)
    c = body.cfg
    co = calls(body, "Dataset::checkout_version")
    okv = len(co) == 1 and ("field", "read_version") in c.op_origins(co[0][1]["args"][1], transparent=lambda t: True)
    chk.ob(R, "at-read-version", okv, "when the dataset moved on, the fragments are read from checkout_version(transaction.read_version) (%d site(s))" % len(co),
           body.loc(co[0][1]["ln"]) if co else body.loc())
    fl = calls(body, "Iterator::filter")
    okf = False
    detail = "no filter"
    if len(fl) == 1:
        o = c.op_origins(fl[0][1]["args"][0], transparent=lambda t: True)
        from_frags = origin_has_call(o, "Dataset::fragments")
        clos = [db.fns[x[1]] for x in c.op_origins(fl[0][1]["args"][1], transparent=lambda t: True) if x[0] == "closure" and x[1] in db.fns]
        by_set = False
        for k in clos:
            for b, t in calls(k, "HashSet::<T, S, A>::contains"):
                kc = k.cfg
                o0 = kc.op_origins(t["args"][0], transparent=lambda t: True)
                o1 = kc.op_origins(t["args"][1], transparent=lambda t: True)
                negated = any(s.get("rv", {}).get("r") == "un" and s["rv"]["op"].startswith("Not") for _, _, s in kc.stmts())
                by_set = by_set or (("upvar", "modified_fragment_ids") in o0 and ("field", "id") in o1 and not negated)
        okf = from_frags and by_set
        detail = "dataset.fragments() (%s) filtered by modified_fragment_ids.contains(&fragment.id) (%s)" % (from_frags, by_set)
    chk.ob(R, "selected-by-id-set", okf, detail, body.loc(fl[0][1]["ln"]) if fl else body.loc())
    col = calls(body, "Iterator::collect")
    okc = bool(col) and any(origin_has_call(c.op_origins(t["args"][0], transparent=lambda t: True), "Iterator::filter") for _, t in col)
    chk.ob(R, "returned", okc, "the filtered fragments are what is returned (collect over the filter)", body.loc())


def check_commit_wiring(db, chk):
    R = "DOM-rebase"
    chk.rule(R, "commit_transaction: every concurrent transaction is checked before finish; the rebased transaction and the "
                "re-loaded dataset feed build_manifest")
    f = db.one(r"^io::commit::commit_transaction$", file="lance/src/io/commit.rs")
    body = user_body(db, f, marker="dataset::write_manifest_file")
    chk.analysed(body)
    c = body.cfg
    load = one_call(body, "io::commit::load_and_sort_new_transactions")
    chk_call = one_call(body, "TransactionRebase::<'a>::check_txn")
    fin = [(b, t) for b, t in calls(body, "TransactionRebase::<'a>::finish") if "{closure" not in name_of(t)]
    tryn = [(b, t) for b, t in calls(body, "TransactionRebase::<'a>::try_new") if "{closure" not in name_of(t)]
    bm = one_call(body, "Transaction::build_manifest")
    wm = [(b, t) for b, t in calls(body, "dataset::write_manifest_file") if "{closure" not in name_of(t)]
    if len(fin) != 1 or len(tryn) != 1 or len(wm) != 1:
        raise AnchorMissing("commit_transaction: finish=%d try_new=%d write_manifest_file=%d" % (len(fin), len(tryn), len(wm)))
    fin, tryn, wm = fin[0], tryn[0], wm[0]
    chk.ob(R, "load<try_new<finish", c.dominates(load[0], tryn[0]) and c.dominates(tryn[0], fin[0]),
           "load_and_sort_new_transactions < try_new < finish on every path", body.loc(fin[1]["ln"]))
    # loop shape: check_txn sits in a loop driven by Iterator::next over the loaded vector, and finish is reached only via
    # the loop's None exit
    nexts = [(b, t) for b, t in c.calls() if has_name(t, "Iterator>::next", "Iterator::next") and c.dominates(tryn[0], b) and c.dominates(b, chk_call[0])]
    ok_loop = False
    det = "no iterator loop around check_txn"
    for nb, nt in nexts:
        oks, errs, sws = ok_targets(c, nb)   # Some -> body, None -> exit
        if not sws:
            continue
        # check_txn under the Some arm; finish not reachable from try_new without passing this `next`
        some_reach = c.reachable_from(list(oks), include_start=True)
        r_wo = c.reachable_from([tryn[0]], avoid=[nb])
        org = c.op_origins(nt["args"][0], transparent=lambda t: True)
        from_loaded = any(o[0] == "call" and "load_and_sort_new_transactions" in (o[1] or "") for o in org) or \
            origin_has_call(org, "load_and_sort_new_transactions")
        ok_loop = chk_call[0] in some_reach and fin[0] not in r_wo
        det = "check_txn in loop body: %s; finish only after the iterator is exhausted: %s; iterator over loaded transactions: %s" % (
            chk_call[0] in some_reach, fin[0] not in r_wo, from_loaded)
        ok_loop = ok_loop and from_loaded
        if ok_loop:
            break
    chk.ob(R, "all-concurrent-txns-checked", ok_loop, det, body.loc(chk_call[1]["ln"]))
    # check_txn's error propagates (its result is branched on and the Err edge does not reach finish)
    oks, errs, sws = ok_targets(c, chk_call[0])
    r_err = c.reachable_from(list(errs), include_start=True) if errs else set()
    chk.ob(R, "conflict-propagates", bool(sws) and wm[0] not in r_err and fin[0] not in r_err,
           "a conflict reported by check_txn leaves the attempt without publishing", body.loc(chk_call[1]["ln"]))
    # transaction passed to build_manifest / write_manifest_file originates from finish()
    o_self = c.op_origins(bm[1]["args"][0])
    chk.ob(R, "build_manifest-self<-finish", origin_has_call(o_self, "TransactionRebase::<'a>::finish"),
           "build_manifest is invoked on a transaction originating from %s" % [x for x in origin_calls(o_self) if "conflict" in x or "clone" in x.lower()],
           body.loc(bm[1]["ln"]))
    o_tx = c.op_origins(wm[1]["args"][7])
    chk.ob(R, "write_manifest_file-txn<-finish", origin_has_call(o_tx, "TransactionRebase::<'a>::finish"),
           "the transaction embedded in the manifest originates from rebase.finish", body.loc(wm[1]["ln"]))
    # manifest built against the dataset re-loaded in this iteration
    o_cur = c.op_origins(bm[1]["args"][1])
    chk.ob(R, "build_manifest-current<-reloaded", origin_has_call(o_cur, "load_and_sort_new_transactions") and ("field", "manifest") in o_cur,
           "build_manifest's current manifest originates from the dataset returned by load_and_sort_new_transactions", body.loc(bm[1]["ln"]))
    fin_ds = c.op_origins(fin[1]["args"][1])
    chk.ob(R, "finish-on-reloaded", origin_has_call(fin_ds, "load_and_sort_new_transactions"),
           "rebase.finish runs against the re-loaded dataset", body.loc(fin[1]["ln"]))
    chk.sample({"commit_transaction": {"load": load[0], "try_new": tryn[0], "check_txn": chk_call[0], "finish": fin[0],
                                       "build_manifest": bm[0], "write_manifest_file": wm[0]}})


def run(db, chk):
    variants, M = check_matrix(db, chk)
    apply_oracle(chk, M, NOT_ALWAYS_OK, DEPENDS)
    check_try_new(db, chk, M)
    check_initial_fragments(db, chk)
    check_commit_wiring(db, chk)
    chk.info("the conflict matrix in transaction.rs' module documentation is not used as an oracle (it disagrees with the code, "
             "e.g. Append vs Merge)")
    chk.assume("strict-overwrite mode (num_retries = 0) deliberately skips conflict resolution")

"""C08 Cleanup never removes anything a retained version needs.

Decided:
  TABLE   CleanupTask::path_if_not_referenced, interpreted (success-path abstract interpretation) for every combination of
          path class (prefix), extension, maybe_in_progress, uuid-present, and the answers of every referenced / verified
          `contains`: it returns Some(path) (= delete) only if
             - the path is a `_versions/.tmp*` leftover and not maybe_in_progress, or
             - its class's referenced set was consulted and does NOT contain it, and (not maybe_in_progress or its
               class's verified set contains it);
          `.manifest` files and unknown classes / extensions are never returned
  TABLE   process_manifest_file: for all (is_latest, should_clean, is_tagged): the working-set flag handed to process_manifest
          = is_latest or not should_clean or is_tagged, and the manifest path is pushed to old_manifests iff that flag is false
  TABLE   process_manifest: every kind of file a manifest references (data files, deletion file, transaction file, index
          uuid) is inserted, into referenced_files when in the working set and into verified_files otherwise
  TABLE   CleanupPolicy::should_clean = (no before_timestamp or ts < it) and (no before_version or version < it)
  DOM     run: all manifests are processed (and read errors propagate) before anything is deleted; a manifest read error in
          process_manifest_file propagates; maybe_in_progress = !delete_unverified && last_modified >= now - 7 days;
          the listing is bounded by earliest_retained_manifest_time; auto_cleanup_hook never enables delete_unverified
Not decided: races as schedules, clock behaviour, files of other branches / external bases (outside the deletion classes).
"""
import itertools

from engine import absint
from engine.absint import UNK, Abort, Ref, mk_adt, mk_none, mk_some
from engine.cfg import op_place, expr_of
from engine.facts import AnchorMissing
from .common import user_body, calls, one_call, name_of, has_name, origin_has_call, origin_calls, ok_targets

LEVEL = "proof"
FILE = "lance/src/dataset/cleanup.rs"

CLASSES = {"tmp": "_versions/.tmp", "indices": "_indices", "data": "data", "deletions": "_deletions", "transactions": "_transactions"}
EXTS = ("lance", "manifest", "arrow", "bin", "txn", "other", None)
KIND_OF = {  # set kind -> (class, extensions)
    "index_uuids": ("indices", None),
    "data_paths": ("data", ("lance",)),
    "delete_paths": ("deletions", ("arrow", "bin")),
    "tx_paths": ("transactions", ("txn",)),
}


def tracing_hooks():
    return [
        ("tracing::Level as std::cmp::PartialOrd<tracing::level_filters::LevelFilter>>::le", lambda it, t, a: False),
        ("log::max_level", lambda it, t, a: UNK),
    ]


def check_path_table(db, chk):
    R = "TABLE-delete-decision"
    chk.rule(R, "path_if_not_referenced interpreted over all path classes x extensions x flags x set answers")
    f = db.one(r"CleanupTask::<'a>::path_if_not_referenced$", file=FILE)
    chk.analysed(f)
    rows = 0
    bad_rows = []
    unknown = set()
    for cls, ext, mip in itertools.product(list(CLASSES) + ["other"], EXTS, (True, False)):
        state = {}

        def starts_with(it, t, a, cls=cls):
            pat = a[1]
            if not isinstance(pat, str):
                raise Abort("starts_with with non-constant pattern")
            it.events.append(("starts_with", pat))
            known = {v: k for k, v in CLASSES.items()}
            if pat not in known:
                raise Abort("starts_with(%r): prefix not in the reviewed class table" % pat)
            return known[pat] == cls

        def extension(it, t, a, ext=ext):
            return mk_none() if ext is None else mk_some(ext)

        def str_eq(it, t, a):
            x, y = it.deref(it.deref(a[0])), it.deref(it.deref(a[1]))
            if not isinstance(x, str) or not isinstance(y, str):
                raise Abort("string comparison of non-constants")
            return x == y

        def contains(it, t, a):
            r = a[0]
            fl = r.fields() if isinstance(r, Ref) else []
            if len(fl) < 2 or fl[-2] not in ("referenced_files", "verified_files"):
                raise Abort("contains() on an unrecognised set %s" % fl)
            key = (fl[-2], fl[-1])
            ans = it.fork_bool(("contains",) + key)
            it.events.append(("contains", key[0], key[1], ans))
            return ans

        def nth(it, t, a):
            ans = it.fork_bool(("nth",))
            it.events.append(("nth", ans))
            return mk_some(UNK) if ans else mk_none()

        hooks = tracing_hooks() + [
            ("core::str::<impl str>::starts_with", starts_with),
            ("object_store::path::Path::extension", extension),
            ("impl std::cmp::PartialEq for str>::eq", str_eq),
            ("<str as std::cmp::PartialEq>::eq", str_eq),
            ("std::collections::HashSet::<T, S, A>::contains", contains),
            ("std::iter::Iterator::nth", nth),
        ]
        it = absint.Interp(db, hooks, lenient=True)
        insp = mk_adt("CleanupInspection", "CleanupInspection", {
            "referenced_files": mk_adt("ReferencedFiles", "ReferencedFiles", {k: ("set", "referenced", k) for k in KIND_OF}),
            "verified_files": mk_adt("ReferencedFiles", "ReferencedFiles", {k: ("set", "verified", k) for k in KIND_OF}),
        })
        from .C21 import Ref_to
        try:
            for res in it.explore(lambda: it.call_fn(f, [UNK, ("path",), mip, Ref_to(insp)])):
                rows += 1
                ev = list(it.events)
                deleted = isinstance(res, dict) and res.get("$variant") == "Ok" and isinstance(res.get("0"), dict) and res["0"].get("$variant") == "Some"
                if not (isinstance(res, dict) and res.get("$variant") == "Ok"):
                    bad_rows.append((cls, ext, mip, ev, "returned %r (not Ok)" % (res,)))
                    continue
                if not deleted:
                    continue
                asked = {(e[1], e[2]): e[3] for e in ev if e[0] == "contains"}
                ok = False
                why = ""
                if cls == "tmp":
                    ok = not mip
                    why = "temporary manifest deleted although maybe_in_progress" if mip else ""
                else:
                    for kind, (kc, kext) in KIND_OF.items():
                        if kc != cls or (kext is not None and ext not in kext):
                            continue
                        refd = asked.get(("referenced_files", kind))
                        ver = asked.get(("verified_files", kind))
                        if refd is False and ((not mip) or ver is True):
                            ok = True
                    if not ok:
                        why = "delete decided with class=%s ext=%s maybe_in_progress=%s set answers=%s" % (cls, ext, mip, asked)
                if ext == "manifest" and cls not in ("tmp", "indices"):
                    ok = False
                    why = "a .manifest file is returned for deletion"
                if not ok:
                    bad_rows.append((cls, ext, mip, ev, why))
        except Abort as e:
            bad_rows.append((cls, ext, mip, [], "interpreter aborted (fail closed): %s" % e))
        unknown |= it.unknown_calls
    by = {}
    for cls, ext, mip, ev, why in bad_rows:
        by.setdefault((cls, ext, mip), why)
    for cls, ext, mip in itertools.product(list(CLASSES) + ["other"], EXTS, (True, False)):
        key = "class=%s,ext=%s,maybe_in_progress=%s" % (cls, ext, mip)
        why = by.get((cls, ext, mip))
        chk.ob(R, key, why is None, why or "every path returning Some(path) satisfies the deletion condition", f.loc())
    chk.floor(R, "interpreted paths of path_if_not_referenced", rows, 200)
    chk.extra["delete_decision_paths"] = rows
    chk.extra["opaque_calls_in_path_if_not_referenced"] = sorted(unknown)
    chk.sample({"path_if_not_referenced": {"paths_interpreted": rows, "violating_rows": len(by)}})


def check_working_set(db, chk):
    R = "TABLE-working-set"
    chk.rule(R, "process_manifest_file: working-set flag and old-manifest decision over all (is_latest, should_clean, is_tagged)")
    f = db.one(r"CleanupTask::<'a>::process_manifest_file$", file=FILE)
    body = user_body(db, f, marker="process_manifest")
    chk.analysed(body)

    def should_clean(it, t, a):
        ans = it.fork_bool(("should_clean",))
        return ans

    def contains(it, t, a):
        ans = it.fork_bool(("is_tagged",))
        return ans

    def process_manifest(it, t, a):
        it.events.append(("process_manifest", a[3]))
        return mk_adt("Result", "Ok", {"0": []})

    def push(it, t, a):
        r = a[0]
        it.events.append(("push", tuple(r.fields()) if isinstance(r, Ref) else ()))
        return []

    hooks = tracing_hooks() + [
        ("CleanupPolicy::should_clean", should_clean),
        ("std::collections::HashSet::<T, S, A>::contains", contains),
        ("CleanupTask::<'a>::process_manifest", process_manifest),
        ("std::vec::Vec::<T, A>::push", push),
    ]
    it = absint.Interp(db, hooks, lenient=True)
    seen = {}
    # the `is_latest` comparison: the unique `<=` whose left operand originates from Dataset::version()
    c0 = body.cfg
    latest_sites = [(i, j) for i, j, s in c0.stmts() if s.get("rv", {}).get("r") == "bin" and s["rv"]["op"] == "Le" and
                    origin_has_call(c0.op_origins(s["rv"]["a"]), "Dataset::version")]
    if len(latest_sites) != 1:
        raise AnchorMissing("process_manifest_file: expected one `dataset_version <= ..` comparison, found %d" % len(latest_sites))
    try:
        for res in it.explore(lambda: it.call_fn(body, [{"$closure": body.id}, UNK])):
            le = [v for k, v in it.memo.items() if k[0] == "cmp" and k[3] == "Le" and k[2] == latest_sites[0]]
            is_latest = le[0] if le else None
            sc = it.memo.get(("should_clean",))
            tg = it.memo.get(("is_tagged",))
            pm = [e[1] for e in it.events if e[0] == "process_manifest"]
            pushed = any(e[0] == "push" and "old_manifests" in e[1] for e in it.events)
            finished_ok = isinstance(res, dict) and res.get("$variant") == "Ok"
            if not pm and not pushed and not finished_ok:
                continue   # an opaque test sent this run to an early (non-Ok) exit before the decision: not a decision row
            seen.setdefault((is_latest, sc, tg), set()).add((tuple(pm), pushed))
    except Abort as e:
        chk.ob(R, "interp", False, "interpreter aborted (fail closed): %s" % e, body.loc())
        return
    n = 0
    for is_latest, sc, tg in itertools.product((True, False), repeat=3):
        # short-circuit evaluation may leave an input unevaluated (None): match rows compatibly
        outs = set()
        for (a, b, c_), o in seen.items():
            if (a in (None, is_latest)) and (b in (None, sc)) and (c_ in (None, tg)):
                outs |= o
        exp = is_latest or (not sc) or tg
        ok = bool(outs) and all(pm == (exp,) and pushed == (not exp) for pm, pushed in outs)
        chk.ob(R, "is_latest=%s,should_clean=%s,is_tagged=%s" % (is_latest, sc, tg), ok,
               "working-set flag / pushed-to-old_manifests observed %s; required flag=%s, pushed=%s" % (sorted(outs), exp, not exp), body.loc())
        n += 1
    chk.floor(R, "rows", n, 8)
    # is_latest compares dataset version with the manifest's version in the right direction
    c = body.cfg
    les = [(i, s) for i, j, s in c.stmts() if s.get("rv", {}).get("r") == "bin" and s["rv"]["op"] in ("Le", "Lt", "Ge", "Gt")]
    okdir = False
    for i, s in les:
        oa = c.op_origins(s["rv"]["a"])
        ob = c.op_origins(s["rv"]["b"])
        a_ds = origin_has_call(oa, "Dataset::version")
        b_mf = ("field", "version") in ob and origin_has_call(ob, "read_manifest")
        if s["rv"]["op"] == "Le" and a_ds and b_mf:
            okdir = True
    chk.ob(R, "is_latest-direction", okdir, "is_latest is `dataset_version <= manifest.version` (manifest read from the listed location)", body.loc())
    # read errors propagate
    rm = [x for x in calls(body, "read_manifest") if "read_manifest_indexes" not in name_of(x[1])]
    pm = calls(body, "CleanupTask::<'a>::process_manifest")
    for b, t in rm:
        oks, errs, _ = ok_targets(c, b)
        r_e = c.reachable_from(list(errs), include_start=True, avoid=list(oks)) if errs else set()
        chk.ob("DOM-errors", "manifest-read-error-propagates", bool(errs) and not any(pb in r_e for pb, _ in pm) and
               not any(i in r_e for (i, j, s) in c.aggregates(adt="Result", variant="Ok") if s["lhs"] == [0]),
               "a failed manifest read ends process_manifest_file with an error (it is not skipped)", body.loc(t["ln"]))


def check_reference_collection(db, chk):
    R = "TABLE-collect"
    chk.rule(R, "process_manifest: all referenced file kinds are collected, into referenced_files iff in working set")
    f = db.one(r"CleanupTask::<'a>::process_manifest$", file=FILE)
    chk.analysed(f)
    for in_ws in (True, False):
        def insert(it, t, a):
            r = a[0]
            fl = tuple(r.fields()) if isinstance(r, Ref) else ()
            # resolve through the `referenced_files` local which is a &mut to one of the two sets
            tgt = None
            if isinstance(r, Ref):
                base = r.frame.locals.get(r.place[0])
                chain = []
                v = base
                n = 0
                while isinstance(v, Ref) and n < 10:
                    chain += v.fields()
                    v = v.frame.locals.get(v.place[0])
                    n += 1
                fl = tuple(chain) + fl
            it.events.append(("insert", fl))
            # HashSet::insert answers "was it new?": both answers are explored, so that a collection step that is
            # skipped because an earlier path was already known (e.g. a fragment shared with another manifest) shows up
            return it.fork_bool(("insert-was-new", len(it.events)))
        hooks = tracing_hooks() + [("std::collections::HashSet::<T, S, A>::insert", insert)]
        it = absint.Interp(db, hooks, lenient=True)
        insp = mk_adt("CleanupInspection", "CleanupInspection", {
            "referenced_files": mk_adt("ReferencedFiles", "ReferencedFiles", {k: ("set", "referenced", k) for k in KIND_OF}),
            "verified_files": mk_adt("ReferencedFiles", "ReferencedFiles", {k: ("set", "verified", k) for k in KIND_OF}),
        })
        from .C21 import Ref_to
        kinds = set()
        wrong = set()
        npaths = 0
        short = []
        try:
            for res in it.explore(lambda: it.call_fn(f, [UNK, UNK, UNK, in_ws, Ref_to(Ref_to(insp))])):
                npaths += 1
                here = set()
                for e in it.events:
                    if e[0] == "insert":
                        fl = e[1]
                        want = "referenced_files" if in_ws else "verified_files"
                        other = "verified_files" if in_ws else "referenced_files"
                        k = [x for x in fl if x in KIND_OF]
                        if k:
                            here.add(k[-1])
                        if other in fl or want not in fl:
                            wrong.add(fl)
                kinds |= here
                if here != set(KIND_OF):
                    short.append(sorted(set(KIND_OF) - here))
        except Abort as e:
            chk.ob(R, "interp:in_working_set=%s" % in_ws, False, "interpreter aborted (fail closed): %s" % e, f.loc())
            continue
        chk.ob(R, "target-set:in_working_set=%s" % in_ws, not wrong,
               "all inserts go to %s (misdirected: %s)" % ("referenced_files" if in_ws else "verified_files", sorted(wrong)), f.loc())
        chk.ob(R, "all-kinds:in_working_set=%s" % in_ws, kinds == set(KIND_OF),
               "file kinds collected: %s (required: %s)" % (sorted(kinds), sorted(KIND_OF)), f.loc())
        # on EVERY success path (manifest with a fragment that has data files and a deletion file, a transaction file and an
        # index), whatever the sets already contained, every kind is collected: collection does not depend on set contents
        chk.ob(R, "every-path-all-kinds:in_working_set=%s" % in_ws, npaths >= 1 and not short,
               "%d success path(s) explored (both answers of every HashSet::insert); paths that skip a kind: %s" % (npaths, short[:4] or "none"), f.loc())
    # AGREE: ReferencedFiles has exactly the reviewed kinds (a new kind of referenced file needs a deletion class)
    adt = db.adts.get("dataset::cleanup::ReferencedFiles")
    fields = sorted(x["name"] for x in adt["variants"][0]["fields"]) if adt else []
    chk.ob(R, "referenced-file-kinds", fields == sorted(KIND_OF), "ReferencedFiles fields %s = reviewed kinds %s" % (fields, sorted(KIND_OF)))


def check_should_clean(db, chk):
    R = "TABLE-policy"
    chk.rule(R, "CleanupPolicy::should_clean over all Option shapes x comparison outcomes")
    f = db.one(r"^dataset::cleanup::CleanupPolicy::should_clean$", file=FILE)
    chk.analysed(f)
    from .C21 import Ref_to
    for ts, ver in itertools.product((False, True), repeat=2):
        def lt(it, t, a):
            return it.fork_bool(("ts_lt",))
        hooks = [("PartialOrd>::lt", lt), ("PartialOrd::lt", lt)]
        it = absint.Interp(db, hooks, lenient=True)
        pol = mk_adt("CleanupPolicy", "CleanupPolicy", {
            "before_timestamp": mk_some(UNK) if ts else mk_none(), "before_version": mk_some(UNK) if ver else mk_none(),
            "delete_unverified": False, "error_if_tagged_old_versions": True})
        ok, det = True, ""
        try:
            for res in it.explore(lambda: it.call_fn(f, [Ref_to(pol), UNK])):
                ts_lt = it.memo.get(("ts_lt",))
                v_lt = [v for k, v in it.memo.items() if k[0] == "cmp" and k[3] == "Lt"]
                exp = (not ts or ts_lt is True) and (not ver or (v_lt and v_lt[0] is True))
                if ts and ts_lt is None or ver and not v_lt:
                    ok, det = False, "a configured bound was not compared"
                elif res is not exp:
                    ok, det = False, "should_clean = %r with ts_lt=%s version_lt=%s; required %s" % (res, ts_lt, v_lt, exp)
        except Abort as e:
            ok, det = False, "interpreter aborted (fail closed): %s" % e
        chk.ob(R, "before_timestamp=%s,before_version=%s" % ("Some" if ts else "None", "Some" if ver else "None"), ok,
               det or "conjunction of the configured strict bounds", f.loc())


def check_order(db, chk):
    R = "DOM-cleanup"
    chk.rule(R, "inspection completes before deletion; in-progress guard; auto cleanup is conservative")
    run_ = db.one(r"CleanupTask::<'a>::run$", file=FILE)
    body = user_body(db, run_, marker="delete_unreferenced_files")
    chk.analysed(body)
    c = body.cfg
    pm = one_call(body, "CleanupTask::<'a>::process_manifests")
    du = one_call(body, "CleanupTask::<'a>::delete_unreferenced_files")
    oks, errs, _ = ok_targets(c, pm[0])
    r_e = c.reachable_from(list(errs), include_start=True, avoid=list(oks)) if errs else set()
    chk.ob(R, "inspect<delete", bool(oks) and any(c.dominates(o, du[0]) for o in oks) and du[0] not in r_e,
           "delete_unreferenced_files runs only after process_manifests succeeded", body.loc(du[1]["ln"]))
    o = c.op_origins(du[1]["args"][1])
    chk.ob(R, "delete-uses-inspection", origin_has_call(o, "process_manifests"), "deletion is driven by the inspection just computed", body.loc(du[1]["ln"]))
    tg = calls(body, "Tags::<'a>::list", "Tags::list", "refs::Tags")
    chk.ob(R, "tags-listed", len(tg) >= 1 and all(c.dominates(b, pm[0]) for b, _ in tg[:1]), "tags are listed before manifests are inspected", body.loc())
    # process_manifests: every listed manifest goes through process_manifest_file and stream errors propagate
    pms = db.one(r"CleanupTask::<'a>::process_manifests$", file=FILE)
    fam = pms.family()
    has_pmf = any(calls(k, "CleanupTask::<'a>::process_manifest_file") for k in fam)
    body2 = user_body(db, pms, marker="list_manifest_locations")
    chk.analysed(body2)
    c2 = body2.cfg
    tfe = calls(body2, "try_for_each_concurrent")
    okp = False
    for b, t in tfe:
        o2 = c2.op_origins(t["args"][0], transparent=lambda t: False)
        oks2, errs2, sw2 = ok_targets(c2, b)
        okp = okp or origin_has_call(o2, "list_manifest_locations") and bool(errs2) and not any(
            i in c2.reachable_from(list(errs2), include_start=True, avoid=list(oks2)) for (i, j, s) in c2.aggregates(adt="Result", variant="Ok") if s["lhs"] == [0])
    chk.ob(R, "all-manifests-inspected", has_pmf and okp,
           "process_manifest_file is applied (try_for_each_concurrent) to the full manifest listing and its errors propagate", body2.loc())
    # delete_unreferenced_files: in-progress guard
    duf = db.one(r"CleanupTask::<'a>::delete_unreferenced_files$", file=FILE)
    dfam = duf.family()
    n_guard = 0
    for k in dfam:
        if not calls(k, "CleanupTask::<'a>::path_if_not_referenced"):
            continue
        chk.analysed(k)
        n_guard += 1
        from .C21 import Ref_to
        for du in (True, False):
            def ge(it, t, a):
                return it.fork_bool(("ge",))

            def pinr(it, t, a):
                it.events.append(("maybe_in_progress", a[2]))
                return mk_adt("Result", "Ok", {"0": mk_none()})
            it = absint.Interp(db, tracing_hooks() + [("PartialOrd>::ge", ge), ("PartialOrd::ge", ge),
                                                      ("CleanupTask::<'a>::path_if_not_referenced", pinr)], lenient=True)
            task = mk_adt("CleanupTask", "CleanupTask", {"policy": mk_adt("CleanupPolicy", "CleanupPolicy", {"delete_unverified": du})})
            env = {"$closure": k.id, "^self": Ref_to(task)}
            ok, det = True, ""
            try:
                for res in it.explore(lambda: it.call_fn(k, [Ref_to(env), UNK])):
                    got = [e[1] for e in it.events if e[0] == "maybe_in_progress"]
                    recent = it.memo.get(("ge",))
                    exp = (not du) and (recent is True)
                    if du is False and recent is None:
                        ok, det = False, "last_modified is not compared with the threshold"
                    elif got != [exp]:
                        ok, det = False, "maybe_in_progress passed = %s with delete_unverified=%s, last_modified>=threshold=%s (required %s)" % (got, du, recent, exp)
            except Abort as e:
                ok, det = False, "interpreter aborted (fail closed): %s" % e
            chk.ob(R, "maybe_in_progress:delete_unverified=%s" % du, ok,
                   det or "maybe_in_progress = !delete_unverified && last_modified >= threshold", k.loc())
        kc = k.cfg
        for b, t in kc.calls():
            if has_name(t, "PartialOrd>::ge", "PartialOrd::ge"):
                oa = kc.op_origins(t["args"][0])
                ob = kc.op_origins(t["args"][1])
                chk.ob(R, "recent-test-operands", ("field", "last_modified") in oa and ("upvar", "verification_threshold") in ob,
                       "the recency test compares obj_meta.last_modified with the verification threshold", k.loc(t["ln"]))
    chk.floor(R, "closures deciding maybe_in_progress", n_guard, 1)
    body3 = user_body(db, duf, marker="read_dir_all")
    chk.analysed(body3)
    c3 = body3.cfg
    days = db.consts.get("dataset::cleanup::UNVERIFIED_THRESHOLD_DAYS")
    td = calls(body3, "TimeDelta::try_days")
    okth = bool(days) and days["val"] >= 1 and len(td) == 1 and (td[0][1]["args"][0].get("cdef") or "").endswith("UNVERIFIED_THRESHOLD_DAYS")
    now = calls(body3, "temporal::utc_now")
    chk.ob(R, "threshold=now-UNVERIFIED_THRESHOLD_DAYS", okth and len(now) >= 1,
           "verification threshold = utc_now() - %s days" % (days["val"] if days else "?"), body3.loc())
    rd = calls(body3, "ObjectStore::read_dir_all")
    okrd = len(rd) == 1 and ("field", "earliest_retained_manifest_time") in c3.op_origins(rd[0][1]["args"][2])
    chk.ob(R, "listing-bounded-by-earliest-retained", okrd, "read_dir_all is bounded by inspection.earliest_retained_manifest_time", body3.loc())
    # auto cleanup never deletes unverified files
    ach = db.one(r"^dataset::cleanup::auto_cleanup_hook$", file=FILE)
    afam = ach.family()
    uses = [k for k in afam if calls(k, "CleanupPolicyBuilder::delete_unverified")]
    chk.ob(R, "auto-cleanup-keeps-guard", not uses, "auto_cleanup_hook never calls CleanupPolicyBuilder::delete_unverified", ach.loc())
    dflt = db.one(r"^<dataset::cleanup::CleanupPolicy as std::default::Default>::default$", file=FILE)
    e = expr_of(dflt, 0)
    okd = e[0] == "agg" and e[3].get("delete_unverified", ("?",))[1] is False
    chk.ob(R, "default-policy-keeps-guard", okd, "CleanupPolicy::default() has delete_unverified = false", dflt.loc())


def run(db, chk):
    check_path_table(db, chk)
    check_working_set(db, chk)
    check_reference_collection(db, chk)
    check_should_clean(db, chk)
    check_order(db, chk)
    chk.extra["exhaustive"] = True
    chk.assume("success-path interpretation: opaque calls succeed; each loop body is walked once; string prefixes of the five "
               "deletion classes are mutually exclusive")
    chk.assume("HashSet::contains / insert, Path::extension, str::starts_with behave as named")

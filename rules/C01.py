"""C01 Every commit is atomic and versions form a dense, monotone history -- structural part.

Decided:
  CALLERS  single publication funnel: CommitHandler::commit is called only from write_manifest_file (and the forwarding
           Arc<T> impl); write_manifest_file only from commit_transaction / do_commit_detached_transaction /
           do_commit_new_dataset; the ManifestWriter function value is taken only in write_manifest_file; the three funnels
           have the reviewed callers only
  INV      functions that pass a path under `_versions/` (origin manifest_path / make_staging_manifest_path / VERSIONS_DIR)
           to a mutating store call = reviewed table
  ORDER    in every funnel: write_transaction_file < (build_manifest | restore_old_manifest | shallow_clone) <
           write_manifest_file, and on the success edge of write_manifest_file no storage-mutating call is reachable
           except the reviewed post-commit hooks (cache inserts, auto_cleanup_hook); errors of the earlier steps prevent
           publication
  ORIGIN   commit_transaction publishes manifest.version = <re-loaded latest>.manifest.version + 1 and refuses numbers in
           the detached range before publishing; detached commits publish random | DETACHED_VERSION_MASK
Not decided: atomicity of the store primitive (C02), what a reader sees at a concrete crash point, density of 1..N as a
run-time fact, data files being closed before they are named (value flow through writers).
"""
from engine import callgraph
from engine.cfg import op_place, expr_of
from engine.facts import AnchorMissing
from .common import user_body, calls, one_call, name_of, has_name, origin_has_call, origin_calls, ok_targets

LEVEL = "other"

ALLOWED_CALLERS = {
    "lance_table::io::commit::CommitHandler::commit": {
        "dataset::write_manifest_file": "the publication funnel",
        "<std::sync::Arc<T> as io::commit::CommitHandler>::commit": "forwarding impl",
    },
    "lance::dataset::write_manifest_file": {
        "io::commit::commit_transaction": "commit of an existing table",
        "io::commit::do_commit_detached_transaction": "detached commit",
        "io::commit::do_commit_new_dataset": "first version / clone",
    },
    "lance_table::io::commit::write_manifest_file_to_path": {
        "dataset::write_manifest_file": "passed as the ManifestWriter value",
    },
    "lance::io::commit::commit_transaction": {
        "dataset::optimize::reserve_fragment_ids": "ReserveFragments commit",
        "dataset::write::commit::CommitBuilder::<'a>::execute": "public commit API",
        "dataset::Dataset::apply_commit": "internal commits (restore, config, index, memwal ...)",
    },
    "lance::io::commit::do_commit_new_dataset": {"io::commit::commit_new_dataset": "wrapper"},
    "lance::io::commit::do_commit_detached_transaction": {"io::commit::commit_detached_transaction": "wrapper"},
}

# functions allowed to mutate objects under _versions/ (root fn path -> reason)
VERSIONS_MUTATORS = {
    "<io::commit::ConditionalPutCommitHandler as io::commit::CommitHandler>::commit": "atomic create (C02)",
    "<io::commit::RenameCommitHandler as io::commit::CommitHandler>::commit": "staging + rename_if_not_exists; deletes its staging file (C02)",
    "<io::commit::external_manifest::ExternalManifestCommitHandler as io::commit::CommitHandler>::commit": "deletes its staging file on a lost race (C10)",
    "io::commit::external_manifest::ExternalManifestCommitHandler::finalize_manifest": "copy staging->final, delete staging (C10)",
    "io::commit::migrate_scheme_to_v2": "explicit offline migration V1->V2 (C33)",
}

POST_COMMIT_ALLOWED = ("LanceCache::insert_with_key", "cleanup::auto_cleanup_hook", "log::", "tracing::")
MUT = ("ObjectStore>::put", "ObjectStore::put", "::put_opts", "::put_multipart", "ObjectStore>::rename", "ObjectStore::rename",
       "::rename_if_not_exists", "ObjectStore>::copy", "ObjectStore::copy", "::copy_if_not_exists", "ObjectStore>::delete",
       "ObjectStore::delete", "::remove_dir_all", "::remove_stream", "ObjectStore::create", "ObjectWriter::new")


def check_callers(db, chk):
    R = "CALLERS"
    chk.rule(R, "resolved callers of the publication funnel functions are exactly the reviewed table")
    cal = db.callers()
    for callee, allowed in ALLOWED_CALLERS.items():
        found = {}
        for f, c in cal.get(callee, []):
            found.setdefault(f.root().path, f)
        chk.floor(R, "callers of %s" % callee.split("::")[-1], len(found), len(allowed) if "commit_transaction" not in callee else 3)
        for path, f in sorted(found.items()):
            chk.ob(R, "%s<-%s" % (callee.split("::", 1)[-1], path), path in allowed,
                   "%s is called from %s: %s" % (callee, path, allowed.get(path, "NOT in the reviewed caller table (new path to publication)")), f.loc())
        for a in allowed:
            if a not in found:
                chk.info("reviewed caller %s of %s no longer present" % (a, callee))


def check_versions_mutators(db, chk):
    R = "INV-versions"
    chk.rule(R, "functions passing a `_versions/` path to a mutating store call = reviewed table")
    found = {}
    n_scanned = 0
    for f in db.fns.values():
        if not f.focus:
            continue
        n_scanned += 1
        cs = [(b, t) for b, t in f.cfg.calls() if has_name(t, *MUT) and "::{closure#" not in name_of(t)]
        for b, t in cs:
            hit = False
            for a in t["args"][1:3]:
                org = f.cfg.op_origins(a)
                if origin_has_call(org, "ManifestNamingScheme::manifest_path", "make_staging_manifest_path") or \
                        any(o[0] == "const" and isinstance(o[1], str) and "VERSIONS_DIR" in o[1] for o in org):
                    hit = True
            if hit:
                found.setdefault(f.root().path, []).append((f, t))
    chk.extra["focus_functions_scanned"] = n_scanned
    chk.floor(R, "manifest-path mutators", len(found), 4)
    for path, sites in sorted(found.items()):
        f, t = sites[0]
        chk.ob(R, "mutator:%s" % path, path in VERSIONS_MUTATORS,
               "%s passes a manifest path to %s: %s" % (path, name_of(t).split("::")[-1], VERSIONS_MUTATORS.get(path, "NOT in the reviewed table of _versions/ writers")),
               f.loc(t["ln"]))
        chk.analysed(f)


def check_order(db, chk):
    R = "ORDER-funnel"
    chk.rule(R, "transaction file < manifest build < publication; nothing mutating after publication except reviewed hooks")
    cg = callgraph.get(db)
    may = cg.may_reach()
    for pat in (r"^io::commit::commit_transaction$", r"^io::commit::do_commit_detached_transaction$", r"^io::commit::do_commit_new_dataset$"):
        f = db.one(pat, file="lance/src/io/commit.rs")
        body = user_body(db, f, marker="dataset::write_manifest_file")
        chk.analysed(body)
        c = body.cfg
        key = f.path.split("::")[-1]
        wt = calls(body, "io::commit::write_transaction_file")
        bm = calls(body, "Transaction::build_manifest") + calls(body, "Transaction::restore_old_manifest") + calls(body, "Manifest::shallow_clone")
        wm = calls(body, "dataset::write_manifest_file")
        if len(wm) != 1 or not bm:
            raise AnchorMissing("%s: write_transaction_file=%d build=%d write_manifest_file=%d" % (key, len(wt), len(bm), len(wm)))
        wmb, wmt = wm[0]
        # the transaction-file write(s) that can precede publication; a write reachable only after a successful
        # publication is reported by `nothing-after-publish` below, by name
        wt = [x for x in wt if wmb in c.reachable_from([x[0]]) and not c.dominates(wmb, x[0])]
        if len(wt) != 1:
            # (e.g. the transaction file moved into a closure / future that runs concurrently with the publication)
            chk.ob(R, "txn-file-before-publish:%s" % key, False,
                   "%s: %d write_transaction_file call(s) are completed before write_manifest_file is called (required: exactly one; the "
                   "transaction file must exist before the manifest that names it is published)" % (key, len(wt)), body.loc(wmt["ln"]))
            continue
        # the transaction file is written (when enabled) before any manifest is built
        r_wo = c.reachable_from([0], include_start=True, avoid=[wt[0][0]])
        dis = calls(body, "ManifestWriteConfig::disable_transaction_file")
        # without passing write_transaction_file, builds are reachable only through the disable_transaction_file() = true edge
        ok_tx = False
        if dis:
            sws = [b for b in c.reach0 if c.switch_info(b) and c.switch_info(b)["kind"] == "bool" and c.dominates(b, wt[0][0])]
            for b in sws:
                p = op_place(c.blocks[b]["term"]["on"])
                if p is None:
                    continue
                org = c.origins(p[0], transparent=lambda t: False)
                if origin_has_call(org, "disable_transaction_file"):
                    si = c.switch_info(b)
                    # which edge leads to the write?
                    for val in (True, False):
                        r = c.reachable_from([si["label_to"][val]], include_start=True, avoid=[si["label_to"][not val]])
                        if wt[0][0] in r:
                            r_other = c.reachable_from([si["label_to"][val]], include_start=True, avoid=[wt[0][0]])
                            ok_tx = not any(b_ in r_other for b_, _ in bm)
        chk.ob(R, "txn-file<build:%s" % key, ok_tx, "unless transaction files are disabled, write_transaction_file precedes every manifest build", body.loc(wt[0][1]["ln"]))
        w_ok, w_err, _ = ok_targets(c, wt[0][0])
        r_e = c.reachable_from(list(w_err), include_start=True, avoid=list(w_ok)) if w_err else set()
        chk.ob(R, "txn-file-error-stops:%s" % key, bool(w_err) and wmb not in r_e, "a failed transaction-file write prevents publication", body.loc(wt[0][1]["ln"]))
        for b, t in bm:
            chk.ob(R, "build<publish:%s:%s" % (key, name_of(t).split("::")[-1]), wmb in c.reachable_from([b]) and not c.dominates(wmb, b),
                   "%s precedes write_manifest_file" % name_of(t).split("::")[-1], body.loc(t["ln"]))
        # the manifest published originates from one of the builds
        o = c.op_origins(wmt["args"][3])
        chk.ob(R, "published<-built:%s" % key, origin_has_call(o, "build_manifest", "restore_old_manifest", "shallow_clone"),
               "the manifest handed to write_manifest_file originates from %s" % [x for x in origin_calls(o) if "manifest" in x.lower() or "clone" in x][:4],
               body.loc(wmt["ln"]))
        # after the success edge: no mutating call except reviewed hooks
        oks, errs, sws = ok_targets(c, wmb)
        chk.ob(R, "publish-outcome-branched:%s" % key, bool(oks) and bool(errs), "the outcome of write_manifest_file is branched on", body.loc(wmt["ln"]))
        r_ok = c.reachable_from(list(oks), include_start=True, avoid=list(errs))
        bad = []
        for b, t in c.calls():
            if b not in r_ok or "::{closure#" in name_of(t):
                continue
            keys = callgraph.callee_keys(t)
            if any(k in may for k in keys) or has_name(t, *MUT):
                if not has_name(t, *POST_COMMIT_ALLOWED):
                    bad.append((name_of(t), t["ln"]))
        chk.ob(R, "nothing-after-publish:%s" % key, not bad,
               "after a successful publication no storage-mutating call is reachable except reviewed hooks; found: %s" % bad, body.loc(wmt["ln"]))
        # on the success edge the function returns Ok without looping back
        chk.ob(R, "publish-then-return:%s" % key, wmb not in r_ok, "a successful publication is not followed by another attempt", body.loc(wmt["ln"]))
        chk.sample({"funnel": key, "write_transaction_file": wt[0][1]["ln"], "builds": [t["ln"] for _, t in bm], "publish": wmt["ln"]})


def check_version_origin(db, chk):
    R = "ORIGIN-version"
    chk.rule(R, "published version number = latest + 1 (attached) / random | MASK (detached)")
    f = db.one(r"^io::commit::commit_transaction$", file="lance/src/io/commit.rs")
    body = user_body(db, f, marker="dataset::write_manifest_file")
    c = body.cfg
    wm = calls(body, "dataset::write_manifest_file")[0]
    stores = [(i, j, s) for i, j, s in c.stmts() if s.get("lhs") and len(s["lhs"]) == 2 and isinstance(s["lhs"][-1], dict) and
              s["lhs"][-1].get("f") == "version" and "Manifest" in body.locals[s["lhs"][0]]["ty"] and c.dominates(i, wm[0])]
    chk.floor(R, "stores to manifest.version before publication (commit_transaction)", len(stores), 1)
    tv = [i for i, l in enumerate(body.locals) if l.get("name") == "target_version"]
    for i, j, s in stores:
        p = op_place(s["rv"]["op"]) if s["rv"]["r"] == "use" else None
        is_tv = p is not None and (p[0] in tv or c.canon(p)[0] in tv)
        chk.ob(R, "version<-target_version", is_tv, "manifest.version is set from target_version", body.loc(s["ln"]))
        # the definition of target_version that reaches this store: the unique one that dominates it and is not the entry one
        defs = [df for df in c.defs[tv[0]]["whole"] if df[0] == "assign" and df[1] in c.reach0 and c.dominates(df[1], i)] if tv else []
        last = None
        for df in defs:
            if last is None or c.dominates(last[1], df[1]):
                last = df
        ok = False
        det = "no dominating definition"
        if last is not None:
            rv = last[3]["rv"]
            val = expr_of(body, rv["op"]) if rv["r"] == "use" else None
            if val and val[0] == "field":
                val = val[1]
            if val and val[0] == "tuple":
                val = val[1][0]
            det = str(val)[:200]
            if val and val[0] == "bin" and val[1] == "Add" and val[3][0] == "const" and val[3][1] == 1:
                org = c.op_origins(last[3]["rv"]["op"], transparent=lambda t: True)
                ok = ("field", "version") in org and ("field", "manifest") in org and origin_has_call(org, "load_and_sort_new_transactions")
                det = "<dataset re-loaded by load_and_sort_new_transactions>.manifest.version + 1" if ok else det
            # no other definition of target_version between `last` and the store
            between = [df for df in c.defs[tv[0]]["whole"] if df[1] in c.reach0 and df is not last and c.dominates(last[1], df[1]) and c.dominates(df[1], i)]
            ok = ok and not between
        chk.ob(R, "target=latest+1", ok, "target_version at publication = %s" % det, body.loc(s["ln"]))
    dv = calls(body, "format::is_detached_version", "is_detached_version")
    okd = False
    for b, t in dv:
        sws = [x for x in c.reach0 if c.switch_info(x) and c.switch_info(x)["kind"] == "bool" and c.bool_def(x) and c.bool_def(x)[0] == "call" and c.bool_def(x)[1] == b]
        for x in sws:
            si = c.switch_info(x)
            r_t = c.reachable_from([si["label_to"][True]], include_start=True, avoid=[si["label_to"][False]])
            okd = wm[0] not in r_t and c.dominates(si["label_to"][False], wm[0])
            a = c.op_origins(t["args"][0])
    chk.ob(R, "refuses-detached-range", okd, "a target version in the detached range is refused before publication", body.loc())
    # detached funnel
    g = db.one(r"^io::commit::do_commit_detached_transaction$", file="lance/src/io/commit.rs")
    gb = user_body(db, g, marker="dataset::write_manifest_file")
    gc = gb.cfg
    wm2 = calls(gb, "dataset::write_manifest_file")[0]
    stores = [(i, j, s) for i, j, s in gc.stmts() if s.get("lhs") and len(s["lhs"]) == 2 and isinstance(s["lhs"][-1], dict) and
              s["lhs"][-1].get("f") == "version" and "Manifest" in gb.locals[s["lhs"][0]]["ty"] and gc.dominates(i, wm2[0])]
    okm = False
    for i, j, s in stores:
        e = expr_of(gb, s["rv"]["op"]) if s["rv"]["r"] == "use" else None
        if e and e[0] == "bin" and e[1] == "BitOr":
            consts = [x for x in (e[2], e[3]) if x[0] == "const"]
            callsx = [x for x in (e[2], e[3]) if x[0] == "call"]
            okm = bool(consts) and (consts[0][2] or "").endswith("DETACHED_VERSION_MASK") and bool(callsx) and "random" in callsx[0][1]
    chk.ob(R, "detached=random|MASK", okm, "detached commits publish version = random | DETACHED_VERSION_MASK", gb.loc())
    # the naming scheme of detached commits
    a = wm2[1]["args"][6]
    e = expr_of(gb, a)
    chk.ob(R, "detached-uses-V2", e[0] == "agg" and e[2] == "V2", "detached commits use the V2 naming scheme (%s)" % (e[2] if e[0] == "agg" else e[0]), gb.loc(wm2[1]["ln"]))


def check_data_before_metadata(db, chk):
    R = "DOM-data-closed"
    chk.rule(R, "a data file's descriptor is created only after the file writer finished successfully")
    n = 0
    for adapter, ctor in (("V1WriterAdapter", "DataFile::new_legacy"), ("V2WriterAdapter", "DataFile::new")):
        fs = [f for f in db.fns.values() if f.file.endswith("lance/src/dataset/write.rs") and adapter in f.path and f.path.endswith("::finish") and f.kind == "method"]
        if len(fs) != 1:
            raise AnchorMissing("%s::finish not found (%d)" % (adapter, len(fs)))
        body = user_body(db, fs[0], marker=ctor)
        chk.analysed(body)
        c = body.cfg
        fin = [x for x in calls(body, "FileWriter::finish", "FileWriter::<M>::finish")]
        mk = [x for x in calls(body, ctor) if name_of(x[1]).endswith(ctor)]
        if len(fin) != 1 or len(mk) != 1:
            chk.ob(R, adapter, False, "%s::finish: %d writer.finish() calls, %d descriptor constructions (expected 1, 1)" % (adapter, len(fin), len(mk)), body.loc())
            continue
        oks, errs, _ = ok_targets(c, fin[0][0])
        r_e = c.reachable_from(list(errs), include_start=True, avoid=list(oks)) if errs else set()
        ok = bool(oks) and any(c.dominates(o, mk[0][0]) for o in oks) and mk[0][0] not in r_e
        n += 1
        chk.ob(R, adapter, ok, "%s::finish builds the DataFile only on the success edge of the file writer's finish() (a failed or unfinished "
               "file is never named by fragment metadata)" % adapter, body.loc(mk[0][1]["ln"]))
    chk.floor(R, "writer adapters", n, 2)


def run(db, chk):
    check_data_before_metadata(db, chk)
    check_callers(db, chk)
    check_versions_mutators(db, chk)
    check_order(db, chk)
    check_version_origin(db, chk)
    # "manifest publication is the single commit point" needs each handler's create to be exclusive: the per-handler protocol
    # rules are C02's (conditional put / staging + rename / lock < head < write) and are part of this property too
    from . import C02
    C02.run(db, chk)
    chk.info("latest-version discovery ignoring staging/temporary names is decided under C33; the external-store handler under C10")
    chk.assume("auto_cleanup_hook only removes files no retained version references (C08)")

"""C13 Compaction and other rewrites never change table contents -- the carry-over wiring of a compaction task only.

Decided (rust/lance/src/dataset/optimize.rs; `stable` = the value of Manifest::uses_stable_row_ids(), propagated as a constant
through every test of it, including the negated copy `needs_remapping`):
  INV-scan      rewrite_files reads the rows to rewrite with a scanner that is restricted to the task's fragments, scans in
                order (scan_in_order(true): positions are what the row maps are built from) and carries no row- or
                column-changing option (filter, limit, projection, search, deleted rows)
  ARMS-rowids   stable = false: the scan asks for row ids, new fragment ids are reserved BEFORE the old->new address map is
                built, and no successful result with new fragments skips that; the map / serialised addresses come from
                the captured ids.  stable = true: no successful result with new fragments skips rechunk_stable_row_ids and
                recalc_versions_for_rewritten_fragments
  DOM-rechunk   rechunk_stable_row_ids: old sequences are put back in fragment order (sort_by_key), deleted rows are masked
                out of them, the new fragments' row_id_meta is write_row_ids(rechunk_sequences(those sequences, .., false));
                recalc_versions_for_rewritten_fragments: created_at / last_updated_at sequences are masked by the same
                deletion file, rechunked (exact, as two separately built inputs) and each field is stored from a rechunked
                sequence (which of the two lists lands in which field passes through a zip of iterators: not decided)
  ARMS-commit   commit_compaction: one Rewrite{groups, rewritten_indices, frag_reuse_index}: groups carry each task's
                old and new fragments; with address ids and no deferral the indices are remapped with the collected row map
                (remap_indices) and their result becomes rewritten_indices; with deferral the fragment-reuse index is built
                from the tasks' changed addresses; read version = the dataset's version
  ORIGIN-remap-chained  FragReuseIndex::remap_row_id (what every index reads through while remapping is deferred) walks all
                address maps and looks each one up with the running value, so that two deferred compactions compose
Not decided: the multiset of rows and the maps' values, index answers, planning (which fragments are picked).
"""
from engine.cfg import op_place
from engine.facts import AnchorMissing
from .common import user_body, calls, one_call, name_of, has_name, origin_has_call, origin_calls

LEVEL = "other"
FILE = "lance/src/dataset/optimize.rs"
T = lambda t: True

SCAN_DENY = ("Scanner::filter", "Scanner::filter_expr", "Scanner::filter_substrait", "Scanner::limit", "Scanner::project",
             "Scanner::project_with_transform", "Scanner::nearest", "Scanner::full_text_search", "Scanner::include_deleted_rows",
             "Scanner::order_by", "Scanner::prefilter", "Scanner::fast_search", "Scanner::strict_batch_size")


def stable_value(c, local, depth=6):
    """('stable', polarity) when bool `local` is uses_stable_row_ids() (polarity True) or its negation (False),
    possibly and-ed with other things (then None: not a pure test)."""
    d = c.single_def(local)
    if not d or depth == 0:
        return None
    if d[0] == "call":
        return True if has_name(d[2], "Manifest::uses_stable_row_ids") else None
    if d[0] == "assign":
        rv = d[3]["rv"]
        if rv["r"] == "un" and rv["op"].startswith("Not"):
            p = op_place(rv["a"])
            if p and len(p) == 1:
                v = stable_value(c, p[0], depth - 1)
                return None if v is None else (not v)
        if rv["r"] == "use":
            p = op_place(rv["op"])
            if p and len(p) == 1:
                return stable_value(c, p[0], depth - 1)
    return None


def known_variant(c, place, reach, depth=6):
    """The Option variant held by `place` (a local, possibly one tuple field of it) when only the definitions inside `reach`
    are live and there is exactly one, built as Some/None there (the `(Some(rx), data)` / `(None, data)` tuple idiom)."""
    if not place or depth == 0:
        return None
    l, proj = place[0], [e for e in place[1:] if e != "*"]
    live = [df for df in c.defs.get(l, {"whole": []})["whole"] if df[1] in reach]
    if len(live) != 1 or live[0][0] != "assign":
        return None
    rv = live[0][3]["rv"]
    if rv["r"] == "use":
        p = op_place(rv["op"])
        return known_variant(c, list(p) + proj, reach, depth - 1) if p else None
    if rv["r"] == "agg":
        if not proj:
            return rv["variant"] if (rv.get("adt") or "").endswith("option::Option") else None
        if rv.get("adt") or rv.get("closure") or not isinstance(proj[0], dict):
            return None
        k = int(proj[0]["f"]) if str(proj[0].get("f", "")).isdigit() else None
        if k is None or k >= len(rv["ops"]):
            return None
        p = op_place(rv["ops"][k])
        return known_variant(c, list(p) + proj[1:], reach, depth - 1) if p else None
    return None


def mode_filter(c, stable):
    """Edge filter assuming uses_stable_row_ids() == stable everywhere: bool tests of it (or of its negation) follow one edge;
    a `match` on an Option that was built as Some in one mode's arm and None in the other follows the live one."""
    def ef0(b):
        si = c.switch_info(b)
        if si and si["kind"] == "bool":
            p = op_place(c.blocks[b]["term"]["on"])
            if p and len(p) == 1:
                pol = stable_value(c, p[0])
                if pol is not None:
                    return [si["label_to"][stable if pol else (not stable)]]
        return None
    reach0 = c.reachable_from([0], include_start=True, edge_filter=ef0)

    def ef(b):
        r = ef0(b)
        if r is not None:
            return r
        si = c.switch_info(b)
        if si and si["kind"] == "enum" and (si["adt"] or "").endswith("option::Option") and si["place"]:
            v = known_variant(c, si["place"], reach0)
            if v in si["label_to"]:
                return [si["label_to"][v]]
        return None
    return ef


def mode_switches(c):
    out = []
    for b in sorted(c.reach0):
        si = c.switch_info(b)
        if si and si["kind"] == "bool":
            p = op_place(c.blocks[b]["term"]["on"])
            if p and len(p) == 1 and stable_value(c, p[0]) is not None:
                out.append(b)
    return out


def rewrite_files(db, chk):
    f = db.one(r"^dataset::optimize::rewrite_files$", file=FILE)
    body = user_body(db, f, marker="write_fragments_internal")
    chk.analysed(body)
    c = body.cfg
    R = "INV-scan"
    chk.rule(R, "the compaction scan is restricted to the task's fragments, in order, with no row/column-changing option")
    sc = [(b, t) for b, t in calls(body, "dataset::scanner::Scanner::")]
    chk.floor(R, "Scanner option calls in rewrite_files", len(sc), 4)
    bad = [name_of(t) for _, t in sc if any(name_of(t).endswith(d.split("::")[-1]) and d in name_of(t) for d in SCAN_DENY)]
    chk.ob(R, "no-row-changing-option", not bad, "scanner options used: %s; row/column-changing: %s" % (
        sorted({name_of(t).split("::")[-1] for _, t in sc}), bad or "none"), body.loc())
    wf = calls(body, "Scanner::with_fragments")
    okf = len(wf) == 1 and origin_has_call(c.op_origins(wf[0][1]["args"][1], transparent=T), "migrate_fragments")
    chk.ob(R, "only-task-fragments", okf, "with_fragments(<the task's fragments, migrated>) (%d site(s))" % len(wf), body.loc(wf[0][1]["ln"]) if wf else body.loc())
    so = calls(body, "Scanner::scan_in_order")
    oko = len(so) == 1 and so[0][1]["args"][1].get("v") is True
    streams = calls(body, "Scanner::try_into_stream")
    chk.ob(R, "in-order", oko and bool(streams) and all(c.dominates(so[0][0], b) for b, _ in streams),
           "scan_in_order(true) precedes every try_into_stream (%d stream site(s))" % len(streams), body.loc(so[0][1]["ln"]) if so else body.loc())

    R = "ARMS-rowids"
    chk.rule(R, "per row-id mode, no successful rewrite result skips the carry-over of row ids / versions")
    sws = mode_switches(c)
    chk.floor(R, "tests of uses_stable_row_ids in rewrite_files", len(sws), 3)
    results = []
    for i, j, s in c.aggregates():
        if (s["rv"].get("adt") or "").endswith("optimize::RewriteResult"):
            nf = dict(zip(s["rv"]["fields"], s["rv"]["ops"])).get("new_fragments")
            o = c.op_origins(nf, transparent=T) if nf else set()
            if origin_has_call(o, "write_fragments_internal"):
                results.append((i, s))
    chk.floor(R, "successful results carrying new fragments", len(results), 1)
    write = one_call(body, "write_fragments_internal")
    reserve = calls(body, "optimize::reserve_fragment_ids")
    transpose = calls(body, "remapping::transpose_row_addrs")
    rechunk = calls(body, "optimize::rechunk_stable_row_ids")
    recalc = calls(body, "optimize::recalc_versions_for_rewritten_fragments")
    with_rid = calls(body, "Scanner::with_row_id")
    for stable in (False, True):
        ef = mode_filter(c, stable)
        reach = c.reachable_from([0], include_start=True, edge_filter=ef)
        tag = "stable" if stable else "address"

        def must_pass(name, sites, key):
            live = [b for b, _ in sites if b in reach]
            r_wo = c.reachable_from([0], include_start=True, edge_filter=ef, avoid=live)
            ok = bool(live) and not any(i in r_wo for i, _ in results)
            chk.ob(R, "%s:%s" % (tag, key), ok, "row ids %s: no successful result with new fragments skips %s (%d live site(s))" % (
                tag, name, len(live)), body.loc(sites[0][1]["ln"]) if sites else body.loc())
            return live
        if stable:
            must_pass("rechunk_stable_row_ids", rechunk, "rechunk")
            must_pass("recalc_versions_for_rewritten_fragments", recalc, "versions")
            for b, t in rechunk + recalc:
                o1 = c.op_origins(t["args"][1], transparent=T)
                o2 = c.op_origins(t["args"][2], transparent=T)
                chk.ob(R, "stable:%s-args" % name_of(t).split("::")[-1], origin_has_call(o1, "write_fragments_internal") and origin_has_call(o2, "migrate_fragments"),
                       "%s(dataset, &mut <new fragments>, &<old fragments>)" % name_of(t).split("::")[-1], body.loc(t["ln"]))
        else:
            live_res = must_pass("reserve_fragment_ids", reserve, "reserve-ids")
            live_rid = [b for b, _ in with_rid if b in reach]
            live_streams = [b for b, _ in streams if b in reach]
            chk.ob(R, "address:scan-with-row-id", bool(live_rid) and bool(live_streams) and all(any(c.dominates(r, s) for r in live_rid) for s in live_streams),
                   "with address ids the scan captures row ids (with_row_id before the stream is opened)", body.loc())
            live_tr = [(b, t) for b, t in transpose if b in reach]
            ok = bool(live_tr) and all(any(c.dominates(r, b) for r in live_res) for b, _ in live_tr)
            chk.ob(R, "address:reserve<transpose", ok, "new fragment ids are reserved before the old->new address map is built", body.loc())
            for b, t in live_tr:
                o0 = c.op_origins(t["args"][0], transparent=T)
                chk.ob(R, "address:map-from-captured-ids", origin_has_call(o0, "make_rowid_capture_stream") or origin_has_call(o0, "row_addrs"),
                       "transpose_row_addrs(<captured row addresses>, old, new) (origins %s)" % origin_calls(o0)[:6], body.loc(t["ln"]))
            chk.ob(R, "address:no-rechunk", not any(b in reach for b, _ in rechunk), "rechunk_stable_row_ids is not on the address-id path", body.loc())
    # the result's maps are the ones computed
    for i, s in results:
        have = dict(zip(s["rv"]["fields"], s["rv"]["ops"]))
        o = c.op_origins(have["row_id_map"], transparent=T)
        chk.ob(R, "result:row_id_map", origin_has_call(o, "transpose_row_addrs"), "RewriteResult.row_id_map <- transpose_row_addrs", body.loc(s["ln"]))
        o = c.op_origins(have["original_fragments"], transparent=T)
        chk.ob(R, "result:original_fragments", ("upvar", "task") in o and ("field", "fragments") in o, "RewriteResult.original_fragments <- the task's fragments", body.loc(s["ln"]))


def rechunk(db, chk):
    R = "DOM-rechunk"
    chk.rule(R, "row-id and version sequences of rewritten fragments: ordered, masked by deletions, rechunked exactly, stored in the right field")
    f = db.one(r"^dataset::optimize::rechunk_stable_row_ids$", file=FILE)
    body = user_body(db, f, marker="rechunk_sequences")
    chk.analysed(body)
    c = body.cfg
    load = one_call(body, "rowids::load_row_id_sequences")
    srt = calls(body, "sort_by_key")
    rc = one_call(body, "rowids::rechunk_sequences")
    wr = one_call(body, "rowids::write_row_ids")
    chk.ob(R, "rowids:sorted", len(srt) == 1 and c.dominates(load[0], srt[0][0]) and c.dominates(srt[0][0], rc[0]),
           "old sequences are sorted back into fragment order between loading and rechunking", body.loc(srt[0][1]["ln"]) if srt else body.loc())
    o = c.op_origins(rc[1]["args"][0], transparent=T)
    chk.ob(R, "rowids:rechunk-input", origin_has_call(o, "load_row_id_sequences"), "rechunk_sequences(<the loaded old sequences>, ..)", body.loc(rc[1]["ln"]))
    chk.ob(R, "rowids:rechunk-exact", rc[1]["args"][2].get("v") is False, "rechunk_sequences(.., allow_incomplete = false)", body.loc(rc[1]["ln"]))
    fam = [g for g in db.fns.values() if g.path.startswith(f.path + "::{closure")]
    masks = [(g, b, t) for g in fam for b, t in calls(g, "RowIdSequence::mask")]
    okm = False
    for g, b, t in masks:
        gc = g.cfg
        og = gc.op_origins(t["args"][1], transparent=T)
        okm = okm or origin_has_call(og, "read_dataset_deletion_file")
    chk.ob(R, "rowids:masked", okm, "deleted rows are masked out of the old sequences (RowIdSequence::mask(<deletion file>), %d site(s))" % len(masks),
           masks[0][0].loc(masks[0][2]["ln"]) if masks else body.loc())
    stores = [(i, s) for i, j, s in c.stmts() if s.get("lhs") and isinstance(s["lhs"][-1], dict) and s["lhs"][-1].get("f") == "row_id_meta"]
    oks = bool(stores)
    for i, s in stores:
        o = c.op_origins(s["rv"]["op"], transparent=T) if s["rv"]["r"] == "use" else set()
        oks = oks and origin_has_call(o, "write_row_ids") and origin_has_call(o, "rechunk_sequences")
    chk.ob(R, "rowids:stored", oks and c.dominates(rc[0], wr[0]), "fragment.row_id_meta <- write_row_ids(<rechunked sequence>) (%d store(s))" % len(stores), body.loc(wr[1]["ln"]))

    f2 = db.one(r"^dataset::optimize::recalc_versions_for_rewritten_fragments$", file=FILE)
    b2 = user_body(db, f2, marker="rechunk_version_sequences")
    chk.analysed(b2)
    c2 = b2.cfg
    rcs = calls(b2, "version::rechunk_version_sequences")
    chk.ob(R, "versions:two-rechunks", len(rcs) == 2 and all(t["args"][2].get("v") is False for _, t in rcs),
           "created_at and last_updated_at sequences are both rechunked exactly (%d site(s))" % len(rcs), b2.loc())
    vm = calls(b2, "RowDatasetVersionSequence::mask")
    okv = len(vm) >= 2 and all(origin_has_call(c2.op_origins(t["args"][1], transparent=T), "read_dataset_deletion_file") for _, t in vm)
    chk.ob(R, "versions:masked", okv, "both version sequences are masked by the fragment's deletion file (%d site(s))" % len(vm), b2.loc(vm[0][1]["ln"]) if vm else b2.loc())
    # the two rechunk inputs are kept apart: one is built from the old fragments' created_at sequences only, the other from
    # their last_updated_at sequences (which may fall back to created_at).  Which rechunked list lands in which field goes
    # through a zip of iterators and is not decided here.
    both = {"created_at_version_meta", "last_updated_at_version_meta"}
    inputs = []
    for _, t in rcs:
        o = c2.op_origins(t["args"][0], transparent=T)
        inputs.append(frozenset({x[1] for x in o if x[0] == "field"} & both))
    chk.ob(R, "versions:inputs-apart", sorted(map(sorted, inputs)) == [["created_at_version_meta"], sorted(both)],
           "the two rechunk inputs are built from %s" % sorted(map(sorted, inputs)), b2.loc())
    for fld in sorted(both):
        st = [(i, s) for i, j, s in c2.stmts() if s.get("lhs") and isinstance(s["lhs"][-1], dict) and s["lhs"][-1].get("f") == fld]
        ok = bool(st)
        for i, s in st:
            o = c2.op_origins(s["rv"]["op"], transparent=T) if s["rv"]["r"] == "use" else set()
            flds = {x[1] for x in o if x[0] == "field"}
            ok = ok and origin_has_call(o, "rechunk_version_sequences") and origin_has_call(o, "RowDatasetVersionMeta::from_sequence") and fld in flds
        chk.ob(R, "versions:stored:%s" % fld, ok, "new fragment.%s <- from_sequence(<a rechunked sequence built from the old fragments' %s>)" % (fld, fld),
               b2.loc(st[0][1]["ln"]) if st else b2.loc())


def commit(db, chk):
    R = "ARMS-commit"
    chk.rule(R, "commit_compaction publishes one Rewrite carrying the tasks' fragments, the remapped indices or the reuse index")
    f = db.one(r"^dataset::optimize::commit_compaction$", file=FILE)
    body = user_body(db, f, marker="Transaction::new")
    chk.analysed(body)
    c = body.cfg
    ops = [(i, s) for i, j, s in c.aggregates() if (s["rv"].get("adt") or "").endswith("transaction::Operation")]
    chk.ob(R, "one-operation", len(ops) == 1 and ops[0][1]["rv"]["variant"] == "Rewrite", "one Operation::Rewrite is built (%s)" % [s["rv"]["variant"] for _, s in ops], body.loc())
    if len(ops) != 1:
        return
    have = dict(zip(ops[0][1]["rv"]["fields"], ops[0][1]["rv"]["ops"]))
    og = c.op_origins(have["groups"], transparent=T)
    flds = {x[1] for x in og if x[0] == "field"}
    chk.ob(R, "groups", {"original_fragments", "new_fragments"} <= flds and ("upvar", "completed_tasks") in og,
           "Rewrite.groups <- each completed task's original_fragments and new_fragments (fields %s)" % sorted(flds & {"original_fragments", "new_fragments"}), body.loc(ops[0][1]["ln"]))
    oi = c.op_origins(have["rewritten_indices"], transparent=T)
    chk.ob(R, "rewritten_indices", origin_has_call(oi, "IndexRemapper::remap_indices"), "Rewrite.rewritten_indices <- remap_indices(..)", body.loc(ops[0][1]["ln"]))
    rm = calls(body, "IndexRemapper::remap_indices")
    okr = len(rm) == 1
    if okr:
        o = c.op_origins(rm[0][1]["args"][1], transparent=T)
        okr = ("field", "row_id_map") in o and ("upvar", "completed_tasks") in o
    chk.ob(R, "remap-input", okr, "remap_indices(<the tasks' row_id_map entries>, <affected fragment ids>)", body.loc(rm[0][1]["ln"]) if rm else body.loc())
    of = c.op_origins(have["frag_reuse_index"], transparent=T)
    chk.ob(R, "frag_reuse_index", origin_has_call(of, "build_new_frag_reuse_index"), "Rewrite.frag_reuse_index <- build_new_frag_reuse_index(..) when deferring", body.loc(ops[0][1]["ln"]))
    br = calls(body, "frag_reuse::build_new_frag_reuse_index")
    okb = len(br) == 1
    if okb:
        o = c.op_origins(br[0][1]["args"][1], transparent=T)
        okb = ("field", "changed_row_addrs") in o
    chk.ob(R, "reuse-input", okb, "the reuse index is built from the tasks' changed_row_addrs", body.loc(br[0][1]["ln"]) if br else body.loc())
    # mode wiring: address ids and no deferral => remap is on every path to the transaction
    tn = one_call(body, "Transaction::new")
    ov = c.op_origins(tn[1]["args"][0], transparent=T)
    chk.ob(R, "read-version", ("field", "version") in ov and ("field", "manifest") in ov, "Transaction::new(dataset.manifest.version, ..)", body.loc(tn[1]["ln"]))
    ac = one_call(body, "Dataset::apply_commit")
    chk.ob(R, "committed", c.dominates(tn[0], ac[0]), "the transaction is applied with apply_commit", body.loc(ac[1]["ln"]))
    # needs_remapping = !stable && !defer: under (stable = false) and the negated `defer_index_remap` field false
    nsw = []
    for b in sorted(c.reach0):
        si = c.switch_info(b)
        if si and si["kind"] == "bool":
            p = si["place"]
            nm = c.fn.locals[p[0]].get("name") if p and len(p) == 1 else None
            if nm == "needs_remapping":
                nsw.append(b)
    chk.floor(R, "tests of needs_remapping", len(nsw), 2)

    def ef(b):
        if b in nsw:
            return [c.switch_info(b)["label_to"][True]]
        return None
    if rm:
        r_wo = c.reachable_from([0], include_start=True, edge_filter=ef, avoid=[rm[0][0]])
        chk.ob(R, "needs-remapping=>remap", tn[0] not in r_wo, "when remapping is needed no path reaches the transaction without remap_indices", body.loc(rm[0][1]["ln"]))
    nr = [i for i, l in enumerate(c.fn.locals) if l.get("name") == "needs_remapping"]
    okn = False
    if nr:
        o = c.origins(nr[0], transparent=T) | c.op_control_origins({"cp": [nr[0]]}, transparent=T)
        okn = origin_has_call(o, "uses_stable_row_ids") and ("field", "defer_index_remap") in o
    chk.ob(R, "needs-remapping-def", okn, "needs_remapping is computed from uses_stable_row_ids() and options.defer_index_remap", body.loc())


def deferred_remap_is_chained(db, chk):
    """With deferred remapping the fragment-reuse index holds one address map per compaction that has not been folded into the
    indices yet; an index entry written before two of them has to be taken through both, oldest first (the output fragment of
    the first compaction is an input of the second).  Every index type reads through FragReuseIndex::remap_row_id."""
    R = "ORIGIN-remap-chained"
    chk.rule(R, "FragReuseIndex::remap_row_id walks all of row_id_maps and looks each map up with the RUNNING value (the key of the "
                "lookup depends on the result of the previous lookup), not with the original address every time")
    f = db.one(r"frag_reuse::FragReuseIndex::remap_row_id$", file="lance-index/src/frag_reuse.rs")
    fam = [g for g in f.family() if g.focus]
    for g in fam:
        chk.analysed(g)
    walks = [(g, b, t) for g in fam for b, t in g.cfg.calls() if has_name(t, "<impl [T]>::iter", "IntoIterator>::into_iter", "::into_iter") and
             ("field", "row_id_maps") in g.cfg.op_origins(t["args"][0], transparent=T)]
    chk.ob(R, "walks-all-maps", bool(walks), "remap_row_id iterates self.row_id_maps (%d iteration(s))" % len(walks), f.loc())
    gets = [(g, b, t) for g in fam for b, t in g.cfg.calls() if "HashMap" in name_of(t) and name_of(t).endswith("::get") and len(t["args"]) == 2]
    chk.ob(R, "looks-up", bool(gets), "%d HashMap::get lookup(s) in remap_row_id" % len(gets), f.loc())
    for n, (g, b, t) in enumerate(gets):
        o = g.cfg.op_origins(t["args"][1], transparent=T)
        carried = any(x[0] in ("via", "call") and x[1] and "HashMap" in x[1] and x[1].endswith("::get") for x in o)
        accumulator = g.parent is not None and any(x[0] == "arg" and x[1] >= 2 for x in o)
        chk.ob(R, "key-is-running-value:%d" % n, carried or accumulator,
               "the key of the lookup %s" % ("is the running value (it can hold the previous lookup's result)" if carried else
                                             "comes from the closure's accumulator argument" if accumulator else
                                             "is always the original address: only the first compaction that touched the row is applied, "
                                             "a second deferred compaction leaves the index pointing into a fragment that no longer exists"),
               g.loc(t["ln"]))


def run(db, chk):
    rewrite_files(db, chk)
    rechunk(db, chk)
    commit(db, chk)
    deferred_remap_is_chained(db, chk)
    chk.assume("write_fragments_internal writes exactly the rows of the stream it is given, in order; transpose_row_addrs, rechunk_sequences, "
               "rechunk_version_sequences and the remapper compute the right values (not decided here)")

"""C10 External manifest store protocol keeps versions unique, durable and portable.

Decided (step order and repair reachability, on every path of the three functions involved):
  ORDER  ExternalManifestCommitHandler::commit: writer(staging) < put_if_not_exists(staging, manifest.version) < finalize;
         on put_if_not_exists' error edge the staging object is deleted, finalize is unreachable and an error is returned
  ORDER  finalize_manifest: copy(staging -> final) < put_if_exists(final) < delete(staging); with `copied` propagated as a
         constant along paths: copied = false  => put_if_exists and delete(staging) are unreachable and head(final) is passed
         before a location is returned; copied = true => every successful path passes put_if_exists, and delete(staging)
         lies on its success edge; the only tolerated copy / delete error is NotFound
  DOM    resolve_latest_location / resolve_version_location: a location whose path came from the external store is
         returned only under `extension() == "manifest"` (already final) or as the result of finalize_manifest (repair)
Not decided: interleavings, behaviour of the external store implementation (put_if_not_exists / put_if_exists are trusted to be
conditional), DynamoDB store (feature off).
"""
from engine.cfg import op_place, expr_of
from engine.facts import AnchorMissing
from .common import user_body, calls, one_call, name_of, has_name, origin_has_call, origin_calls, ok_targets

LEVEL = "other"
FILE = "lance-table/src/io/commit/external_manifest.rs"


def bool_switches_on(c, bb_def_kind, def_bb):
    return [b for b in c.reach0 if c.switch_info(b) and c.switch_info(b)["kind"] == "bool" and c.bool_def(b) and
            c.bool_def(b)[0] == bb_def_kind and c.bool_def(b)[1] == def_bb]


def const_bool_local(c, ok_region, err_region):
    """A bool local assigned `true` somewhere in ok_region and `false` somewhere in err_region (and nowhere else)."""
    out = []
    for l, d in c.defs.items():
        if c.fn.locals[l]["ty"] != "bool":
            continue
        vals = []
        for df in d["whole"]:
            if df[0] == "assign" and df[3]["rv"]["r"] == "use" and isinstance(df[3]["rv"]["op"].get("v"), bool) and df[1] in c.reach0:
                vals.append((df[3]["rv"]["op"]["v"], df[1]))
            elif df[1] in c.reach0:
                vals.append(("other", df[1]))
        if len(vals) == 2 and {v for v, _ in vals} == {True, False}:
            tb = [b for v, b in vals if v is True][0]
            fb = [b for v, b in vals if v is False][0]
            if tb in ok_region and fb in err_region:
                out.append((l, tb, fb))
    return out


def assume_filter(c, local, value):
    """edge filter: switches on `local` (possibly through copies) follow only the edge for `value`."""
    def ef(b):
        si = c.switch_info(b)
        if si and si["kind"] == "bool" and si["place"] and si["place"] == [local]:
            return [si["label_to"][value]]
        return None
    return ef


def check_commit(db, chk):
    R = "ORDER-commit"
    chk.rule(R, "external commit: stage -> put_if_not_exists -> finalize; failure path deletes staging")
    h = db.one(r"ExternalManifestCommitHandler as io::commit::CommitHandler>::commit$", file=FILE)
    body = user_body(db, h, marker="ExternalManifestStore::put_if_not_exists")
    chk.analysed(body)
    c = body.cfg
    fps = [(b, t) for b, t in c.calls() if t.get("rk") == "fnptr"]
    put = one_call(body, "ExternalManifestStore::put_if_not_exists")
    fin = one_call(body, "ExternalManifestCommitHandler::finalize_manifest")
    dels = calls(body, "ObjectStore>::delete", "ObjectStore::delete")
    chk.ob(R, "one-writer", len(fps) == 1, "one manifest-writer call (found %d)" % len(fps), body.loc())
    if not fps:
        return
    wb, wt = fps[0]
    o = c.op_origins(wt["args"][3])
    chk.ob(R, "writer-path-staging", origin_has_call(o, "make_staging_manifest_path") and not origin_has_call(o, "ManifestNamingScheme::manifest_path"),
           "the writer targets the staging path (origins %s)" % origin_calls(o), body.loc(wt["ln"]))
    w_ok, w_err, _ = ok_targets(c, wb)
    chk.ob(R, "write<put", bool(w_ok) and any(c.dominates(x, put[0]) for x in w_ok), "put_if_not_exists runs only after the staging object was written successfully",
           body.loc(put[1]["ln"]))
    o_p = c.op_origins(put[1]["args"][3])
    o_v = c.op_origins(put[1]["args"][2])
    chk.ob(R, "put-args", origin_has_call(o_p, "make_staging_manifest_path") and ("field", "version") in o_v,
           "put_if_not_exists registers (manifest.version -> staging path)", body.loc(put[1]["ln"]))
    p_ok, p_err, sws = ok_targets(c, put[0])
    chk.ob(R, "put-outcome-branched", bool(p_ok) and bool(p_err), "the outcome of put_if_not_exists is branched on", body.loc(put[1]["ln"]))
    r_err = c.reachable_from(list(p_err), include_start=True, avoid=list(p_ok))
    r_ok = c.reachable_from(list(p_ok), include_start=True, avoid=list(p_err))
    chk.ob(R, "put<finalize", fin[0] in r_ok and any(c.dominates(x, fin[0]) for x in p_ok), "finalize_manifest only on the success edge of put_if_not_exists",
           body.loc(fin[1]["ln"]))
    chk.ob(R, "conflict=>no-finalize", fin[0] not in r_err, "on the failure edge finalize_manifest is unreachable", body.loc(put[1]["ln"]))
    d_err = [(b, t) for b, t in dels if b in r_err]
    okd = len(d_err) == 1 and origin_has_call(c.op_origins(d_err[0][1]["args"][1]), "make_staging_manifest_path")
    chk.ob(R, "conflict=>delete-staging", okd, "on the failure edge the staging object is deleted (%d delete call(s) there)" % len(d_err), body.loc(put[1]["ln"]))
    # once the store has accepted (version -> staging path) the staging object is the commit record: within commit() it
    # may only be handed to finalize_manifest, never deleted (whatever finalize returns) -- readers repair from it
    d_ok = [(b, t) for b, t in dels if b in r_ok]
    chk.ob(R, "registered=>staging-kept", not d_ok,
           "no object-store delete is reachable from the success edge of put_if_not_exists in commit() (%s)" % (
               "none" if not d_ok else "delete at line(s) %s" % [t["ln"] for _, t in d_ok]), body.loc(d_ok[0][1]["ln"] if d_ok else put[1]["ln"]))
    no_ok = not any(i in r_err for (i, j, s) in c.aggregates(adt="Result", variant="Ok") if s["lhs"] == [0])
    chk.ob(R, "conflict=>error", no_ok, "the failure edge never returns Ok", body.loc(put[1]["ln"]))
    o_f = c.op_origins(fin[1]["args"][2])
    chk.ob(R, "finalize-on-same-staging", origin_has_call(o_f, "make_staging_manifest_path"), "finalize_manifest receives the same staging path", body.loc(fin[1]["ln"]))
    chk.sample({"commit": {"writer": wt["ln"], "put_if_not_exists": put[1]["ln"], "finalize": fin[1]["ln"], "delete_on_conflict": [t["ln"] for _, t in d_err]}})


def check_finalize(db, chk):
    R = "ORDER-finalize"
    chk.rule(R, "finalize_manifest: copy -> put_if_exists -> delete(staging), constant-propagating `copied`")
    f = db.one(r"^io::commit::external_manifest::ExternalManifestCommitHandler::finalize_manifest$", file=FILE)
    body = user_body(db, f, marker="ExternalManifestStore::put_if_exists")
    chk.analysed(body)
    c = body.cfg
    cp = one_call(body, "ObjectStore>::copy", "ObjectStore::copy")
    pies = calls(body, "ExternalManifestStore::put_if_exists")
    if not pies:
        raise AnchorMissing("finalize_manifest: no put_if_exists call")
    pie = pies[0]
    pie_blocks = [b for b, _ in pies]
    dl = one_call(body, "ObjectStore>::delete", "ObjectStore::delete")
    hd = one_call(body, "ObjectStore>::head", "ObjectStore::head")
    o_from = c.op_origins(cp[1]["args"][1])
    o_to = c.op_origins(cp[1]["args"][2])
    chk.ob(R, "copy-args", ("upvar", "staging_manifest_path") in o_from and origin_has_call(o_to, "manifest_path"),
           "copy(staging parameter -> naming_scheme.manifest_path(base, version))", body.loc(cp[1]["ln"]))
    o_ver = c.op_origins([t for b, t in calls(body, "ManifestNamingScheme::manifest_path")][0]["args"][2])
    chk.ob(R, "final-path-of-version", ("upvar", "version") in o_ver, "the final path is computed from the version parameter", body.loc())
    c_ok, c_err, _ = ok_targets(c, cp[0])
    ok_reg = c.reachable_from(list(c_ok), include_start=True, avoid=list(c_err))
    err_reg = c.reachable_from(list(c_err), include_start=True, avoid=list(c_ok))
    cl = const_bool_local(c, ok_reg, err_reg)
    chk.ob(R, "copied-flag", len(cl) == 1, "one bool set to true on copy's Ok arm and false on an Err arm (found %d)" % len(cl), body.loc(cp[1]["ln"]))
    if len(cl) != 1:
        return
    copied, tb, fb = cl[0]
    # the false assignment sits under the NotFound arm only
    nf_ok = False
    for b in sorted(c.reach0):
        si = c.switch_info(b)
        if si and si["kind"] == "enum" and (si["adt"] or "").endswith("object_store::Error") and c.dominates(cp[0], b) and c.dominates(b, fb):
            tgt = si["label_to"].get("NotFound")
            others = {x for l, x in si["label_to"].items() if x != tgt}
            r_o = c.reachable_from(list(others), include_start=True, avoid=[tgt])
            nf_ok = c.dominates(tgt, fb) and fb not in r_o
            # other error arms return Err without touching the external store
            chk.ob(R, "copy-other-errors-propagate", not any(b in r_o for b in pie_blocks) and dl[0] not in r_o,
                   "copy errors other than NotFound return without flipping the external store", body.loc(cp[1]["ln"]))
    chk.ob(R, "copy-tolerates-only-NotFound", nf_ok, "copied = false is set only on copy's NotFound arm", body.loc(cp[1]["ln"]))
    oks = [i for (i, j, s) in c.aggregates(adt="Result", variant="Ok") if s["lhs"] == [0]]
    # --- assume copied = false
    ef_f = assume_filter(c, copied, False)
    r_f = c.reachable_from([fb], include_start=True, edge_filter=ef_f)
    chk.ob(R, "!copied=>no-flip", not any(b in r_f for b in pie_blocks), "with copied = false the external store is not flipped", body.loc(pie[1]["ln"]))
    chk.ob(R, "!copied=>staging-kept", dl[0] not in r_f, "with copied = false the staging object is not deleted", body.loc(dl[1]["ln"]))
    r_f_nohead = c.reachable_from([fb], include_start=True, edge_filter=ef_f, avoid=[hd[0]])
    chk.ob(R, "!copied=>head-before-return", not any(o in r_f_nohead for o in oks) and any(o in r_f for o in oks),
           "with copied = false a location is returned only after head(final) succeeded", body.loc(hd[1]["ln"]))
    o_h = c.op_origins(hd[1]["args"][1])
    chk.ob(R, "head-on-final", origin_has_call(o_h, "manifest_path"), "head probes the final path", body.loc(hd[1]["ln"]))
    # --- assume copied = true
    ef_t = assume_filter(c, copied, True)
    r_t = c.reachable_from([tb], include_start=True, edge_filter=ef_t)
    r_t_noput = c.reachable_from([tb], include_start=True, edge_filter=ef_t, avoid=pie_blocks)
    chk.ob(R, "copied=>flip-on-every-ok-path", any(b in r_t for b in pie_blocks) and not any(o in r_t_noput for o in oks),
           "with copied = true every successful return passes put_if_exists", body.loc(pie[1]["ln"]))
    p_ok = set()
    for b in pie_blocks:
        p_ok |= set(ok_targets(c, b)[0])
    chk.ob(R, "flip<delete", bool(p_ok) and any(c.dominates(x, dl[0]) for x in p_ok), "delete(staging) lies on the success edge of put_if_exists",
           body.loc(dl[1]["ln"]))
    # the store may be pointed at the final path only once the final object is known to exist: every flip lies on the success
    # edge of the copy (not merely after the copy was *started*: a flip that overlaps the copy can land when the copy fails)
    # every path to a flip passes a point where the copy's outcome is recorded (copied := true / false); together with
    # "!copied=>no-flip" this puts every flip after a successful copy
    r_pre = c.reachable_from([0], include_start=True, avoid=[tb, fb])
    late = [t["ln"] for b, t in pies if b in r_pre]
    chk.ob(R, "copy<flip", c.dominates(cp[0], pie[0]) and not late,
           "every put_if_exists comes after the copy's outcome is known (%d flip site(s); reachable before it: line(s) %s)" % (len(pies), late or "none"),
           body.loc(pie[1]["ln"]))
    chk.ob(R, "flip-to-final", all(origin_has_call(c.op_origins(t["args"][3]), "manifest_path") for _, t in pies),
           "put_if_exists points the external store at the final path", body.loc(pie[1]["ln"]))
    o_dl = c.op_origins(dl[1]["args"][1])
    chk.ob(R, "delete-staging-only", ("upvar", "staging_manifest_path") in o_dl and not origin_has_call(o_dl, "manifest_path"),
           "delete removes the staging object, never the final one", body.loc(dl[1]["ln"]))
    # delete tolerates only NotFound
    d_ok, d_err, _ = ok_targets(c, dl[0])
    tol = False
    for b in sorted(c.reach0):
        si = c.switch_info(b)
        if si and si["kind"] == "enum" and (si["adt"] or "").endswith("object_store::Error") and c.dominates(dl[0], b):
            tgt = si["label_to"].get("NotFound")
            others = {x for l, x in si["label_to"].items() if x != tgt}
            r_o = c.reachable_from(list(others), include_start=True, avoid=[tgt])
            tol = not any(o in r_o for o in oks)
    chk.ob(R, "delete-tolerates-only-NotFound", tol, "other delete errors are returned", body.loc(dl[1]["ln"]))
    chk.sample({"finalize": {"copy": cp[1]["ln"], "head": hd[1]["ln"], "put_if_exists": pie[1]["ln"], "delete": dl[1]["ln"]}})


def check_resolve(db, chk):
    R = "DOM-repair"
    chk.rule(R, "readers return external-store paths only when final, otherwise through finalize_manifest")
    for name, getter in (("resolve_latest_location", "get_latest_manifest_location"), ("resolve_version_location", "get_manifest_location")):
        h = db.one(r"ExternalManifestCommitHandler as io::commit::CommitHandler>::%s$" % name, file=FILE)
        body = user_body(db, h, marker="ExternalManifestStore::" + getter)
        chk.analysed(body)
        c = body.cfg
        get = one_call(body, "ExternalManifestStore::" + getter)
        fins = calls(body, "ExternalManifestCommitHandler::finalize_manifest")
        exts = calls(body, "Path::extension")
        chk.ob(R, "%s:has-repair" % name, len(fins) >= 1 and len(exts) >= 1, "%s has a finalize_manifest repair call and an extension test" % name, body.loc())
        # true edges of `extension() == Some(MANIFEST_EXTENSION)`
        final_edges = []
        for b, t in c.calls():
            if has_name(t, "Option<T> as std::cmp::PartialEq>::eq", "PartialEq>::eq"):
                org = c.op_origins(t["args"][0]) | c.op_origins(t["args"][1])
                if origin_has_call(org, "Path::extension"):
                    for x in bool_switches_on(c, "call", b):
                        final_edges.append(c.switch_info(x)["label_to"][True])
        chk.ob(R, "%s:extension-test" % name, len(final_edges) >= 1, "the `extension() == manifest` test is branched on", body.loc())
        n = 0
        for i, j, s in c.aggregates(adt="Result", variant="Ok"):
            if s["lhs"] != [0]:
                continue
            org = c.op_origins(s["rv"]["ops"][0], transparent=lambda t: not has_name(t, "finalize_manifest", getter, "current_manifest_path", "default_resolve_version"))
            from_ext = origin_has_call(org, getter)
            from_fin = origin_has_call(org, "finalize_manifest")
            if from_ext and not from_fin:
                n += 1
                ok = any(c.dominates(e, i) for e in final_edges)
                chk.ob(R, "%s:unrepaired-return-is-final:%d" % (name, n), ok,
                       "a location taken straight from the external store is returned only under `extension() == manifest`", body.loc(s["ln"]))
        # a finalize call whose result is returned directly (tail) counts as repaired; it must be outside the final edge
        for b, t in fins:
            o = c.op_origins(t["args"][2])
            chk.ob(R, "%s:repair-uses-store-path" % name, origin_has_call(o, getter), "finalize_manifest is applied to the path read from the external store",
                   body.loc(t["ln"]))
        # no successful return between the getter's Some/Ok edge and {final-test true edge, finalize}: i.e. avoiding both, no Ok from ext
        chk.floor(R, "%s: returns of store-provided locations" % name, n + len(fins), 2)


def run(db, chk):
    check_commit(db, chk)
    check_finalize(db, chk)
    check_resolve(db, chk)
    chk.assume("ExternalManifestStore::put_if_not_exists / put_if_exists are conditional writes")
    chk.assume("object-store copy of identical bytes over an existing final object is harmless (idempotent finalisation)")

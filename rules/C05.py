"""C05 Every committed version is internally well formed -- normaliser must-pass rules.

Decided:
  DOM    Transaction::build_manifest: every Ok((manifest, indices)) is dominated by the fragment sort (sort_by_key),
         remove_tombstoned_data_files and Manifest::update_max_fragment_id
  ARMS   the arms that introduce new fragments (Append, Update, Overwrite) route them through fragments_with_ids with the
         build's fragment-id counter; Rewrite goes through handle_rewrite_fragments with the same counter; the counter starts at
         max_fragment_id()+1 (0 only for Overwrite / no manifest)
  ARMS   arms that can change the schema or drop fragments (Delete, Update, Merge, Project) call retain_relevant_indices;
         Overwrite clears the index list
  DOM    write_manifest_file: apply_feature_flags (under auto_set_feature_flags) and update_max_fragment_id dominate
         CommitHandler::commit; commit funnels: fix_schema < check_storage_version < write_manifest_file
  INV    inventory of what Dataset::validate / DataFile::validate / Fragment validation read (reported, not enforced)
Not decided: the invariants as facts about data (row counts, deletion vector positions).
"""
from engine.cfg import op_place, expr_of
from engine.facts import AnchorMissing
from . import matrix
from .common import user_body, calls, one_call, name_of, has_name, origin_has_call, origin_calls, ok_targets

LEVEL = "other"
TX = "lance/src/dataset/transaction.rs"


def arm_filter(c, var, root=1):
    sws = [b for b in sorted(c.reach0) if matrix._is_op_switch(c.switch_info(b)) and c.switch_info(b)["place"][0] == root]

    def ef(b):
        if b in sws:
            si = c.switch_info(b)
            return [si["label_to"][var]] if var in si["label_to"] else []
        return None
    return sws, ef


def run(db, chk):
    R = "DOM-normalise"
    chk.rule(R, "build_manifest: normalisers dominate every successful return")
    f = db.one(r"^dataset::transaction::Transaction::build_manifest$", file=TX)
    chk.analysed(f)
    c = f.cfg
    oks = [i for (i, j, s) in c.aggregates(adt="Result", variant="Ok") if s["lhs"] == [0]]
    chk.floor(R, "Ok returns of build_manifest", len(oks), 1)
    for nm, sub in (("sort-by-id", "sort_by_key"), ("remove-tombstoned-files", "Transaction::remove_tombstoned_data_files"),
                    ("update-max-fragment-id", "Manifest::update_max_fragment_id")):
        sites = calls(f, sub)
        ok = len(sites) >= 1 and all(any(c.dominates(b, o) for b, _ in sites) for o in oks)
        chk.ob(R, nm, ok, "%s dominates every Ok return of build_manifest (%d site(s))" % (sub, len(sites)), f.loc(sites[0][1]["ln"]) if sites else f.loc())
    # the sorted vector is the one that becomes manifest.fragments
    srt = calls(f, "sort_by_key")
    if srt:
        o = c.op_origins(srt[0][1]["args"][0], transparent=lambda t: True)
        ff = [i for i, l in enumerate(f.locals) if l.get("name") == "final_fragments"]
        chk.ob(R, "sort-on-final-fragments", bool(ff) and _reaches_local(c, op_place(srt[0][1]["args"][0])[0], set(ff)),
               "the sort is applied to the fragment list that is published", f.loc(srt[0][1]["ln"]))
    # ---- id assignment per arm
    R2 = "ARMS-fragment-ids"
    chk.rule(R2, "new fragments receive ids from the build's counter")
    fid = [i for i, l in enumerate(f.locals) if l.get("name") == "fragment_id" and l["ty"] == "u64"]
    if len(fid) != 1:
        raise AnchorMissing("build_manifest: fragment_id counter local not found (%d)" % len(fid))
    fid = fid[0]
    for var, callee, idx in (("Append", "fragments_with_ids", 1), ("Update", "fragments_with_ids", 1), ("Overwrite", "fragments_with_ids", 1),
                             ("Rewrite", "handle_rewrite_fragments", 2)):
        sws, ef = arm_filter(c, var)
        reach = c.reachable_from([0], include_start=True, edge_filter=ef)
        sites = [(b, t) for b, t in calls(f, "Transaction::" + callee) if b in reach]
        ok = len(sites) >= 1 and all(_reaches_local(c, op_place(t["args"][idx])[0], {fid}) for b, t in sites)
        chk.ob(R2, "arm:%s" % var, ok, "%s arm assigns ids through %s(&mut fragment_id) (%d site(s))" % (var, callee, len(sites)), f.loc())
        # must-pass: no Ok return on this arm without the id assignment
        if sites:
            r_wo = c.reachable_from([0], include_start=True, edge_filter=ef, avoid=[b for b, _ in sites])
            chk.ob(R2, "arm-must-pass:%s" % var, not any(o in r_wo for o in oks), "no successful path of the %s arm skips %s" % (var, callee), f.loc())
    # counter initial value
    inits = [df for df in c.defs[fid]["whole"] if df[0] in ("assign", "call") and df[1] in c.reach0]
    kinds = []
    for df in inits:
        if df[0] == "assign" and df[3]["rv"]["r"] == "use" and df[3]["rv"]["op"].get("v") == 0:
            kinds.append("zero")
        elif df[0] == "call" and has_name(df[2], "unwrap_or"):
            o = c.op_origins(df[2]["args"][0], transparent=lambda t: True)
            # `current_manifest.and_then(|m| m.max_fragment_id()).map(|id| id + 1).unwrap_or(0)`: the two steps live in closures
            clos = [db.fns[x[1]] for x in o if x[0] == "closure" and x[1] in db.fns]
            has_max = any(calls(k, "Manifest::max_fragment_id") for k in clos)
            has_inc = any(s.get("rv", {}).get("r") == "bin" and s["rv"]["op"].startswith("Add") and s["rv"]["b"].get("v") == 1
                          for k in clos for _, _, s in k.cfg.stmts())
            from_manifest = ("arg", 2) in o
            kinds.append("max+1" if (has_max and has_inc and from_manifest and df[2]["args"][1].get("v") == 0) else "other")
        else:
            kinds.append("other")
    chk.ob(R2, "counter-init", sorted(kinds) == ["max+1", "zero"], "fragment-id counter initialisations: %s (required: 0 for Overwrite, max_fragment_id()+1 otherwise)" % kinds, f.loc())
    # the zero initialisation is on the Overwrite side of a test on self.operation
    # (matches!(self.operation, Overwrite) lowers to a discriminant switch on param 1)
    zdf = [df for df in inits if df[0] == "assign"]
    if zdf:
        zb = zdf[0][1]
        onlyov = False

        def under_overwrite(blk):
            for b in sorted(c.reach0):
                si = c.switch_info(b)
                if matrix._is_op_switch(si) and si["place"][0] == 1 and c.dominates(b, blk):
                    ov = si["label_to"].get("Overwrite")
                    if ov is not None and c.dominates(ov, blk) and all(t == ov or not c.dominates(t, blk) for t in si["label_to"].values()):
                        return True
            return False
        if under_overwrite(zb):
            onlyov = True
        else:
            # `matches!(self.operation, Overwrite {..})` materialises a bool: the zero store is on the true edge of a switch on a
            # bool local whose only `true` definition lies under the Overwrite arm (constant propagation of that bool)
            for b in sorted(c.reach0):
                si = c.switch_info(b)
                if si and si["kind"] == "bool" and si["place"] and len(si["place"]) == 1 and c.dominates(si["label_to"][True], zb):
                    d = c.defs.get(si["place"][0])
                    tdefs = [df for df in d["whole"] if df[0] == "assign" and df[3]["rv"]["r"] == "use" and df[3]["rv"]["op"].get("v") is True]
                    odefs = [df for df in d["whole"] if not (df[0] == "assign" and df[3]["rv"]["r"] == "use" and isinstance(df[3]["rv"]["op"].get("v"), bool))]
                    if tdefs and not odefs and all(under_overwrite(df[1]) for df in tdefs):
                        onlyov = True
        chk.ob(R2, "zero-only-for-overwrite", onlyov, "ids restart at 0 only when the operation is Overwrite", f.loc(zdf[0][3]["ln"]))
    # ---- index retention per arm
    R3 = "ARMS-index-retention"
    chk.rule(R3, "arms that change schema / fragment list drop indices that no longer apply")
    for var in ("Delete", "Update", "Merge", "Project"):
        sws, ef = arm_filter(c, var)
        reach = c.reachable_from([0], include_start=True, edge_filter=ef)
        sites = [(b, t) for b, t in calls(f, "Transaction::retain_relevant_indices") if b in reach]
        ok = False
        if sites:
            r_wo = c.reachable_from([0], include_start=True, edge_filter=ef, avoid=[b for b, _ in sites])
            ok = not any(o in r_wo for o in oks)
        chk.ob(R3, "retain:%s" % var, ok, "every successful path of the %s arm passes retain_relevant_indices (%d site(s))" % (var, len(sites)), f.loc())
    # CreateIndex adds index metadata built against the READ version: when the transaction is applied to a later manifest (a
    # concurrent Project dropped the column: the conflict resolver lets the two pass) the new indices' fields have to be checked
    # against the schema of the manifest being built, or version N+1 names a field that is not in its schema
    sws, ef = arm_filter(c, "CreateIndex")
    reach = c.reachable_from([0], include_start=True, edge_filter=ef)
    shared = c.reachable_from([0], include_start=True, edge_filter=arm_filter(c, "Append")[1]) & \
        c.reachable_from([0], include_start=True, edge_filter=arm_filter(c, "Delete")[1])
    excl = reach - shared        # blocks of this arm only (not the common prologue / epilogue of build_manifest)
    only_here = lambda b: b in excl
    reads = [(b, t) for b, t in c.calls() if only_here(b) and has_name(t, "Schema::fields_pre_order", "Schema::field_by_id", "Schema::field_ids",
                                                                          "Transaction::retain_relevant_indices")]
    member = any(has_name(t, "Transaction::retain_relevant_indices") for _, t in reads)
    for b, t in c.calls():
        if not only_here(b):
            continue
        for a in t["args"]:
            for o in c.op_origins(a, transparent=lambda t_: True):
                if o[0] == "closure" and o[1] in db.fns and db.fns[o[1]].focus:
                    member = member or any(has_name(t2, "HashSet::<T, S>::contains", "HashSet<T, S>::contains", "::contains_key", "::contains")
                                           for _, t2 in db.fns[o[1]].cfg.calls())
    okp = False
    if reads:
        r_wo = c.reachable_from([0], include_start=True, edge_filter=ef, avoid=[b for b, _ in reads])
        okp = not any(o in r_wo for o in oks)
    # ... and the check can stop the commit: an error leaves build_manifest from inside the arm, after the schema was read
    stops = [i for (i, j, st) in c.aggregates(adt="Result", variant="Err") if i in excl and reads and
             any(i in c.reachable_from([b], include_start=True) for b, _ in reads)] + \
            [b for b, t in c.calls() if b in excl and has_name(t, "FromResidual") and reads and any(b in c.reachable_from([rb]) for rb, _ in reads)]
    chk.ob(R3, "new-indices-checked:CreateIndex", bool(reads) and member and okp and bool(stops),
           "the CreateIndex arm reads the field ids of the schema being built (%d site(s)), tests membership (%s), every successful path "
           "passes the check (%s) and the check can fail the commit (%d error exit(s) in the arm)" % (len(reads), member, okp, len(stops)),
           f.loc(reads[0][1]["ln"]) if reads else f.loc())
    # Project removes the data files whose fields all left the schema.  When the columns that stay were never written (all-NULL
    # columns added as metadata) a fragment is left with rows and no file at all, and no reader can open it: after the removal the
    # arm has to look at what is left and be able to stop
    sws, ef = arm_filter(c, "Project")
    reach = c.reachable_from([0], include_start=True, edge_filter=ef)
    excl = reach - shared
    drops = [(b, t) for b, t in c.calls() if b in excl and has_name(t, "Vec::<T, A>::retain", "Vec::<T>::retain") and
             ("field", "files") in c.op_origins(t["args"][0], transparent=lambda t_: True)]
    tests = [(b, t) for b, t in c.calls() if b in excl and has_name(t, "Vec::<T, A>::is_empty", "Vec::<T>::is_empty", "Vec::<T, A>::len", "<[T]>::is_empty", "<impl [T]>::is_empty") and
             ("field", "files") in c.op_origins(t["args"][0], transparent=lambda t_: True) and any(b in c.reachable_from([db_]) for db_, _ in drops)]
    stops = [i for (i, j, st) in c.aggregates(adt="Result", variant="Err") if i in excl and any(i in c.reachable_from([tb]) for tb, _ in tests)] + \
            [b for b, t in c.calls() if b in excl and has_name(t, "FromResidual") and any(b in c.reachable_from([tb]) for tb, _ in tests)]
    chk.ob(R3, "project-leaves-a-file", bool(drops) and bool(tests) and bool(stops),
           "the Project arm removes data files (%d retain on .files); afterwards it tests what is left (%d emptiness test(s)) and can fail the "
           "commit (%d error exit(s))%s" % (len(drops), len(tests), len(stops), "" if tests and stops else
                                          ": a fragment whose remaining columns were never written is published with rows and no data file"),
           f.loc(drops[0][1]["ln"]) if drops else f.loc())
    # ---- write_manifest_file
    R4 = "DOM-publish"
    chk.rule(R4, "flags recomputed and max fragment id updated before the handler is called; sanity checks before publication")
    check_flags_before_commit(db, chk, R4)
    for pat in (r"^io::commit::commit_transaction$", r"^io::commit::do_commit_detached_transaction$"):
        g = db.one(pat, file="lance/src/io/commit.rs")
        gb = user_body(db, g, marker="dataset::write_manifest_file")
        chk.analysed(gb)
        gc = gb.cfg
        wm = calls(gb, "dataset::write_manifest_file")
        fs = calls(gb, "io::commit::fix_schema")
        cs = calls(gb, "io::commit::check_storage_version")
        key = g.path.split("::")[-1]
        ok = len(wm) == 1 and len(fs) == 1 and len(cs) == 1 and gc.dominates(fs[0][0], cs[0][0]) and gc.dominates(cs[0][0], wm[0][0])
        chk.ob(R4, "sanity<publish:%s" % key, ok, "fix_schema < check_storage_version < write_manifest_file in %s" % key, gb.loc())
        if ok:
            # their errors propagate: on the Err edges write_manifest_file is unreachable
            for nm, site in (("fix_schema", fs[0]), ("check_storage_version", cs[0])):
                oks_, errs_, _ = ok_targets(gc, site[0])
                r_e = gc.reachable_from(list(errs_), include_start=True, avoid=list(oks_)) if errs_ else set()
                chk.ob(R4, "%s-error-stops:%s" % (nm, key), bool(errs_) and wm[0][0] not in r_e, "an error from %s prevents publication" % nm, gb.loc(site[1]["ln"]))
    _validator_inventory(db, chk)


def check_flags_before_commit(db, chk, R4):
    """write_manifest_file -- the last stop of every manifest before the handler (commits, clones, branches): the feature flags
    are recomputed from the final manifest and the max fragment id updated before CommitHandler::commit (shared with C37)."""
    w = db.one(r"^dataset::write_manifest_file$", file="lance/src/dataset.rs")
    wb = user_body(db, w, marker="CommitHandler::commit")
    chk.analysed(wb)
    wc = wb.cfg
    cm = one_call(wb, "CommitHandler::commit")
    af = calls(wb, "feature_flags::apply_feature_flags")
    um = calls(wb, "Manifest::update_max_fragment_id")
    chk.ob(R4, "update_max<commit", len(um) == 1 and wc.dominates(um[0][0], cm[0]), "update_max_fragment_id dominates CommitHandler::commit", wb.loc(cm[1]["ln"]))
    okaf = False
    if len(af) == 1:
        # commit reachable without apply_feature_flags only through the false edge of auto_set_feature_flags
        sws = [b for b in wc.reach0 if wc.switch_info(b) and wc.switch_info(b)["kind"] == "bool" and wc.dominates(b, af[0][0])]
        for b in sws:
            p = op_place(wc.blocks[b]["term"]["on"])
            org = wc.origins(p[0]) if p else set()
            if ("field", "auto_set_feature_flags") in org:
                t = wc.switch_info(b)["label_to"][True]
                r = wc.reachable_from([t], include_start=True, avoid=[af[0][0]])
                okaf = cm[0] not in r
        a0 = wc.op_origins(af[0][1]["args"][0])
        okaf = okaf and (("upvar", "manifest") in a0 or ("arg", 4) in a0)
    chk.ob(R4, "flags<commit", okaf, "with auto_set_feature_flags the flags of the manifest being published are recomputed before commit", wb.loc(cm[1]["ln"]))
    a_m = wc.op_origins(cm[1]["args"][1])
    chk.ob(R4, "commit-gets-same-manifest", ("upvar", "manifest") in a_m or ("arg", 4) in a_m, "the handler publishes the manifest that was normalised", wb.loc(cm[1]["ln"]))


def _validator_inventory(db, chk):
    # ---- validator inventory (information)
    inv = {}
    for pat, file in ((r"^dataset::Dataset::validate$", "lance/src/dataset.rs"), (r"^format::fragment::DataFile::validate$", "lance-table/src/format/fragment.rs")):
        try:
            v = db.one(pat, file=file)
        except AnchorMissing:
            continue
        fields = set()
        for k in v.family():
            for _, _, s in k.cfg.stmts():
                for p in ([s.get("lhs")] + [(s.get("rv") or {}).get("place")]):
                    if p:
                        for e in p:
                            if isinstance(e, dict) and "f" in e and not e["f"].isdigit() and not e["f"].startswith("^"):
                                fields.add(e["f"])
        inv[v.path] = sorted(fields)
    chk.extra["validator_field_inventory"] = inv
    chk.info("validator inventory is informational: it lists the fields Dataset::validate / DataFile::validate read")


def _reaches_local(c, start, targets, limit=400):
    """Does `start` (a temp) derive (by refs / moves / reborrows / as_mut_slice-like calls) from one of the locals in targets?"""
    seen, work = set(), [start]
    while work and len(seen) < limit:
        l = work.pop()
        if l in targets:
            return True
        if l in seen:
            continue
        seen.add(l)
        d = c.defs.get(l)
        if not d:
            continue
        for kind in ("whole", "part"):
            for df in d[kind]:
                if df[0] == "assign":
                    rv = df[3]["rv"]
                    for k in ("op", "a", "b"):
                        if rv.get(k):
                            p = op_place(rv[k])
                            if p:
                                work.append(p[0])
                    if rv.get("place"):
                        work.append(rv["place"][0])
                elif df[0] == "call":
                    for a in df[2]["args"][:1]:
                        p = op_place(a)
                        if p:
                            work.append(p[0])
    return False

"""C22 Vector search ... -- only the clause "in every mode deleted rows and rows failing a pre-filter are never returned":
the wiring of the deletion / filter pre-filter (rust/lance/src/index/prefilter.rs).  Distances, top-k and recall are values
and are not decided.

Decided:
  ORIGIN-sorted-positions   RowIdSequence::mask / RowDatasetVersionSequence::mask walk the segments once and need their
                            positions in ascending order.  Every call site outside lance-table (discovered through the
                            workspace call graph) passes positions that do not come from an unordered producer --
                            DeletionVector::iter (hash-set order for small deletion vectors) or a hash container's
                            iterator -- unless they are sorted afterwards (to_sorted_iter / into_sorted_iter are the ordered
                            counterparts)
  DOM-deletion-mask         (also) the "every fragment" range used for an index without a fragment bitmap includes
                            max_fragment_id itself
  DOM-deletion-mask         DatasetPreFilter::new always asks for the deletion mask of the index's fragments (or of all
                            fragments); create_deletion_mask answers None only when there is no missing fragment AND no
                            deletion file; fragments with a deletion file and missing fragments are both collected;
                            address ids: block list = every such fragment's deletion vector + every missing fragment;
                            stable ids: allow list = union over ALL fragments of (row ids minus deleted positions)
  ARMS-combine              the final mask is default & filtered & deleted (two BitAnd, no BitOr), built only after both
                            inputs are ready
Not decided: the contents of deletion vectors and row id sequences; that every index search consults the pre-filter.
"""
from engine.cfg import op_place
from engine.facts import AnchorMissing
from .common import user_body, calls, one_call, name_of, has_name, origin_has_call, origin_calls, origin_mutated_by

LEVEL = "other"
FILE = "lance/src/index/prefilter.rs"
T = lambda t: True
MASKS = ("rowids::RowIdSequence::mask", "RowDatasetVersionSequence::mask")
SORTED = ("DeletionVector::to_sorted_iter", "DeletionVector::into_sorted_iter", "RoaringBitmap::iter", "roaring::bitmap::iter")
UNSORTED = ("DeletionVector::iter", "hash_set::", "hash::set::", "HashSet<", "hash_map::", "hash::map::", "HashMap<")


def sorted_positions(db, chk):
    R = "ORIGIN-sorted-positions"
    chk.rule(R, "positions handed to RowIdSequence::mask / RowDatasetVersionSequence::mask come from a sorted iterator")
    sites = []
    for cid, lst in db.callers().items():
        # definition ids of `impl RowIdSequence { fn mask }` and `impl RowDatasetVersionSequence { fn mask }`
        if not (cid.endswith("::mask") and (cid.startswith("lance_table::rowids::{impl") or cid.startswith("lance_table::rowids::version::{impl"))):
            continue
        for f, c in lst:
            if "lance-table/src/rowids" in f.file:
                continue     # the implementation's own recursion / helpers
            sites.append(f)
    fns = sorted({f.id: f for f in sites}.values(), key=lambda f: (f.file, f.line))
    n = 0
    seen_tags = {}
    for f in fns:
        if not f.focus:
            chk.ob(R, "site:%s" % f.path, False, "%s calls a sequence mask() but lies outside the analysed files (add it to rules/focus.txt and review)" % f.path, f.loc())
            continue
        chk.analysed(f)
        c = f.cfg
        for b, t in calls(f, *MASKS):
            n += 1
            o = c.op_origins(t["args"][1], transparent=T)
            # an alarm needs an unordered producer (a hash container's iterator, DeletionVector::iter) that is not followed by a
            # sort; producers the rule does not know are reported in the detail but are not an alarm by themselves
            resorted = origin_mutated_by(o, "::sort", "sort_unstable", "sort_by")
            bad = origin_has_call(o, *UNSORTED) and not resorted
            good = True
            tag = "%s@%s" % (f.path.split("::{closure")[0].split("::")[-1], name_of(t).split("::")[-2])
            seen_tags[tag] = seen_tags.get(tag, 0) + 1
            chk.ob(R, "sorted:%s:%d" % (tag, seen_tags[tag]), good and not bad,
                   "%s(.., positions) in %s: positions come from %s" % (name_of(t).split("::")[-2] + "::mask", f.path,
                                                                       [x for x in origin_calls(o) if "iter" in x or "Iter" in x][:4] or origin_calls(o)[:4]),
                   f.loc(t["ln"]))
    chk.floor(R, "mask() call sites outside lance-table", n, 4)


def deletion_mask(db, chk):
    R = "DOM-deletion-mask"
    chk.rule(R, "the deletion mask covers every fragment with a deletion file and every missing fragment, and is always requested")
    new = db.one(r"^index::prefilter::DatasetPreFilter::new$", file=FILE)
    chk.analysed(new)
    c = new.cfg
    cm = one_call(new, "DatasetPreFilter::create_deletion_mask")
    aggs = [(i, s) for i, j, s in c.aggregates() if (s["rv"].get("adt") or "").endswith("prefilter::DatasetPreFilter")]
    ok = len(aggs) == 1
    if ok:
        have = dict(zip(aggs[0][1]["rv"]["fields"], aggs[0][1]["rv"]["ops"]))
        ok = origin_has_call(c.op_origins(have["deleted_ids"], transparent=T), "create_deletion_mask") and c.dominates(cm[0], aggs[0][0])
    chk.ob(R, "always-requested", ok, "DatasetPreFilter::new stores create_deletion_mask(..) as deleted_ids on its only path", new.loc(cm[1]["ln"]))
    of = c.op_origins(cm[1]["args"][1], transparent=T)
    clos = [db.fns[x[1]] for x in of if x[0] == "closure" and x[1] in db.fns]
    whole = origin_has_call(of, "RoaringBitmap::insert_range") or any(has_name(t, "insert_range") for _, t in c.calls())
    per_index = ("field", "fragment_bitmap") in of or any(("field", "fragment_bitmap") in {y for _, _, s in k.cfg.stmts() for y in _fields(s)} for k in new.family())
    chk.ob(R, "fragments-of-the-indices", whole and per_index,
           "the fragments asked about are the indices' fragment bitmaps, or 0..max_fragment_id when one has none (%s/%s)" % (per_index, whole), new.loc())

    # "all fragments" for an index without a bitmap: max_fragment_id is the largest id in use (inclusive), so the range asked
    # about must include it -- an exclusive 0..max leaves the newest fragment's deletion file out of the mask
    ir = [(b, t) for b, t in c.calls() if has_name(t, "RoaringBitmap>::insert_range", "::insert_range")]
    okr = len(ir) == 1
    detail = "%d insert_range site(s)" % len(ir)
    if okr:
        p = op_place(ir[0][1]["args"][1])
        d = c.single_def(p[0]) if p and len(p) == 1 else None
        okr = False
        if d and d[0] == "assign" and d[3]["rv"]["r"] == "agg":
            rv = d[3]["rv"]
            kind = (rv.get("adt") or "").split("::")[-1]
            have = dict(zip(rv["fields"], rv["ops"]))
            end = have.get("end")
            oend = c.op_origins(end, transparent=T) if end is not None else set()
            from_max = ("field", "max_fragment_id") in oend
            plus_one = False
            pe = op_place(end) if end is not None else None
            de = c.single_def(pe[0]) if pe and len(pe) == 1 else None
            if de and de[0] == "assign" and de[3]["rv"]["r"] in ("bin", "use"):
                x = de[3]["rv"]
                plus_one = x["r"] == "bin" and x["op"].startswith("Add") and x["b"].get("v") == 1
            okr = kind == "RangeInclusive" or (kind == "Range" and from_max and plus_one)
            detail = "insert_range(%s{.., end <- max_fragment_id: %s, +1: %s})" % (kind, from_max, plus_one)
        elif d and d[0] == "call" and has_name(d[2], "RangeInclusive"):
            oend = c.op_origins(d[2]["args"][1], transparent=T)
            okr = ("field", "max_fragment_id") in oend
            detail = "insert_range(RangeInclusive::new(0, <max_fragment_id: %s>))" % okr
    chk.ob(R, "all-fragments-includes-the-newest", okr, "the 'every fragment' range includes max_fragment_id itself: " + detail, new.loc(ir[0][1]["ln"]) if ir else new.loc())

    cdm = db.one(r"^index::prefilter::DatasetPreFilter::create_deletion_mask$", file=FILE)
    chk.analysed(cdm)
    c = cdm.cfg
    nones = [i for i, j, s in c.aggregates(adt="Option", variant="None") if s["lhs"] == [0]]
    empt = calls(cdm, "Vec::<T, A>::is_empty", "Vec::<T>::is_empty")
    chk.ob(R, "none-shape", len(nones) == 1 and len(empt) == 2, "one `None` answer, two emptiness tests (%d/%d)" % (len(nones), len(empt)), cdm.loc())
    if len(nones) == 1 and len(empt) == 2:
        names = []
        for b, t in empt:
            o = c.op_origins(t["args"][0], transparent=T)
            # which vector: by the local's name
            nm = _base_name(c, t["args"][0])
            names.append(nm)
            sw = [s for s in sorted(c.reach0) if c.switch_info(s) and c.switch_info(s)["kind"] == "bool" and c.bool_def(s) and c.bool_def(s)[0] == "call" and c.bool_def(s)[1] == b]
            okb = bool(sw)
            for s in sw:
                def ef(x, s=s):
                    return [c.switch_info(s)["label_to"][False]] if x == s else None
                r = c.reachable_from([0], include_start=True, edge_filter=ef)
                okb = okb and nones[0] not in r
            chk.ob(R, "none-only-if-empty:%s" % nm, okb, "`None` (no mask needed) is unreachable when %s is non-empty" % nm, cdm.loc(t["ln"]))
        chk.ob(R, "both-lists-tested", sorted(str(x) for x in names) == ["frags_with_deletion_files", "missing_frags"], "the two emptiness tests are on %s" % names, cdm.loc())
    pushes = calls(cdm, "Vec::<T, A>::push", "Vec::<T>::push")
    tgt = []
    for b, t in pushes:
        tgt.append(_base_name(c, t["args"][0]))
    chk.ob(R, "collects-both", sorted(str(x) for x in tgt) == ["frags_with_deletion_files", "missing_frags"], "fragments are classified into %s" % tgt, cdm.loc())
    some = [(b, t) for b, t in calls(cdm, "Option::<T>::is_some")]
    okd = any(("field", "deletion_file") in c.op_origins(t["args"][0], transparent=T) for b, t in some)
    chk.ob(R, "by-deletion-file", okd, "a fragment is listed when fragment.deletion_file.is_some()", cdm.loc())
    # dispatch: stable -> row-id variant with the dataset; else the address variant with both lists
    d1 = calls(cdm, "DatasetPreFilter::do_create_deletion_mask_row_id")
    d2 = [x for x in calls(cdm, "DatasetPreFilter::do_create_deletion_mask") if not name_of(x[1]).endswith("_row_id")]
    okx = len(d1) == 1 and len(d2) == 1
    if okx:
        a = d2[0][1]["args"]
        n1 = _base_name(c, a[1])
        n2 = _base_name(c, a[2])
        okx = (n1, n2) == ("missing_frags", "frags_with_deletion_files")
    chk.ob(R, "dispatch", okx, "address ids: do_create_deletion_mask(dataset, missing_frags, frags_with_deletion_files); stable ids: the row-id variant", cdm.loc())

    # address variant
    f = db.one(r"^index::prefilter::DatasetPreFilter::do_create_deletion_mask$", file=FILE)
    body = user_body(db, f, marker="RowIdTreeMap::insert_fragment")
    chk.analysed(body)
    c = body.cfg
    ib = calls(body, "RowIdTreeMap::insert_bitmap")
    ifr = calls(body, "RowIdTreeMap::insert_fragment")
    fb = calls(body, "RowIdMask::from_block")
    okb = len(ib) == 1 and len(ifr) == 1 and len(fb) == 1
    if okb:
        o = c.op_origins(fb[0][1]["args"][0], transparent=T)
        okb = origin_mutated_by(o, "insert_bitmap") and origin_mutated_by(o, "insert_fragment")
        om = c.op_origins(ifr[0][1]["args"][1], transparent=T)
        okb = okb and ("upvar", "missing_frags") in om
    chk.ob(R, "block-list", okb, "block list = from_block(set with insert_bitmap(frag, its deletion vector) for listed fragments and insert_fragment(frag) for "
           "every missing fragment)", body.loc(fb[0][1]["ln"]) if fb else body.loc())
    fam = f.family()
    gdv = [g for g in fam if calls(g, "FileFragment::get_deletion_vector")]
    chk.ob(R, "vectors-of-listed-fragments", bool(gdv), "deletion vectors are read with get_deletion_vector() of each listed fragment", body.loc())

    # stable variant
    f = db.one(r"^index::prefilter::DatasetPreFilter::do_create_deletion_mask_row_id$", file=FILE)
    fam = [g for g in db.fns.values() if g.path == f.path or g.path.startswith(f.path + "::")]
    for g in fam:
        chk.analysed(g)
    fa = [(g, b, t) for g in fam for b, t in calls(g, "RowIdMask::from_allowed")]
    oka = len(fa) == 1
    chk.ob(R, "allow-list", oka, "allow list = from_allowed(..) (%d site(s))" % len(fa), fa[0][0].loc(fa[0][2]["ln"]) if fa else f.loc())
    ors = [(g, b, t) for g in fam for b, t in calls(g, "BitOrAssign", "bitor_assign")]
    frm = [(g, b, t) for g in fam for b, t in calls(g, "RowIdTreeMap as std::convert::From<&lance_table::rowids::RowIdSequence>>::from", "RowIdTreeMap as std::convert::From")]
    chk.ob(R, "allow-union", bool(ors) and bool(frm), "each fragment's (masked) row id sequence is turned into a treemap and or-ed into the allow list", f.loc())
    loaders = [g for g in fam if calls(g, "Dataset::get_fragments")]
    okl = bool(loaders) and any(calls(g, "rowids::load_row_id_sequence") for g in fam) and any(calls(g, "FileFragment::get_deletion_vector") for g in fam)
    chk.ob(R, "all-fragments", okl, "row ids and deletion vectors are loaded for dataset.get_fragments() (all fragments)", f.loc())


def _fields(s):
    out = []
    for k in ("lhs",):
        for e in s.get(k) or []:
            if isinstance(e, dict) and "f" in e:
                out.append(("field", e["f"]))
    rv = s.get("rv") or {}
    for k in ("place",):
        for e in rv.get(k) or []:
            if isinstance(e, dict) and "f" in e:
                out.append(("field", e["f"]))
    for k in ("op", "a", "b"):
        p = op_place(rv[k]) if rv.get(k) else None
        for e in p or []:
            if isinstance(e, dict) and "f" in e:
                out.append(("field", e["f"]))
    return out


def _base_name(c, op):
    p = op_place(op)
    if p is None:
        return None
    seen = set()
    l = p[0]
    while l not in seen:
        seen.add(l)
        nm = c.fn.locals[l].get("name")
        if nm:
            return nm
        d = c.single_def(l)
        if not d or d[0] != "assign":
            return None
        rv = d[3]["rv"]
        q = rv.get("place") if rv["r"] == "ref" else (op_place(rv["op"]) if rv["r"] == "use" else None)
        if not q:
            return None
        l = q[0]
    return None


def combine(db, chk):
    R = "ARMS-combine"
    chk.rule(R, "final mask = default & filtered & deleted")
    w = db.one(r"prefilter::DatasetPreFilter as lance_index::prefilter::PreFilter>::wait_for_ready$", file=FILE)
    fam = w.family()
    ands = [(g, b, t) for g in fam for b, t in calls(g, "RowIdMask as std::ops::BitAnd")]
    ors = [(g, b, t) for g in fam for b, t in calls(g, "RowIdMask as std::ops::BitOr")]
    for g in {x[0].id: x[0] for x in ands}.values():
        chk.analysed(g)
    srcs = set()
    for g, b, t in ands:
        o = g.cfg.op_origins(t["args"][1], transparent=T)
        srcs |= {x[1] for x in o if x[0] == "field" and x[1] in ("filtered_ids", "deleted_ids")}
    chk.ob(R, "intersection", len(ands) == 2 and not ors and srcs == {"filtered_ids", "deleted_ids"},
           "the combined mask is intersected with %s (%d BitAnd, %d BitOr)" % (sorted(srcs), len(ands), len(ors)), w.loc())
    body = user_body(db, w, marker="wait_ready")
    c = body.cfg
    waits = calls(body, "SharedPrerequisite::<T>::wait_ready", "wait_ready")
    init = calls(body, "OnceCell::<T>::get_or_init", "get_or_init")
    okw = len(waits) >= 2 and len(init) == 1
    awaited = set()
    if okw:
        # on every path to the initialisation, each optional input was either absent or awaited: from the Some-edge of the
        # test of an input, the initialisation is unreachable when its wait is avoided
        for s in sorted(c.reach0):
            si = c.switch_info(s)
            if not (si and si["kind"] == "enum" and (si["adt"] or "").endswith("option::Option") and si["place"]):
                continue
            fld = [e["f"] for e in si["place"] if isinstance(e, dict) and e.get("f") in ("filtered_ids", "deleted_ids")]
            if not fld or "Some" not in si["label_to"]:
                continue
            some = si["label_to"]["Some"]
            r_some = c.reachable_from([some], include_start=True, avoid=[si["label_to"].get("None", -1)])
            mine = [b for b, _ in waits if b in r_some and c.dominates(some, b)]
            if mine and init[0][0] not in c.reachable_from([some], include_start=True, avoid=mine[:1]):
                awaited.add(fld[0])
        okw = awaited == {"filtered_ids", "deleted_ids"}
    chk.ob(R, "ready-before-combine", okw, "each present input is awaited (wait_ready) before the mask is initialised (awaited: %s)" % sorted(awaited), body.loc())


def _field_reads(x, names, out):
    if isinstance(x, dict):
        if x.get("f") in names:
            out.add(x["f"])
        for v in x.values():
            _field_reads(v, names, out)
    elif isinstance(x, list):
        for v in x:
            _field_reads(v, names, out)


MASK_OWNER = "lance-core/src/utils/mask"


def mask_taken_whole(db, chk):
    """A RowIdMask means `allow_list minus block_list` (the deletion mask lives in the block list, the filter result in the
    allow list once combined): a consumer outside the mask module that looks into one list has to look into the other too,
    or go through the mask's own API (selected / iter_ids / max_len ...)."""
    R = "INV-mask-whole"
    chk.rule(R, "a function (with its closures) outside lance_core::utils::mask that reads RowIdMask.allow_list also reads "
                ".block_list and vice versa; KNN result ids taken from the pre-filter come through RowIdMask::iter_ids")
    roots = {}
    for f in db.fns.values():
        if f.focus and MASK_OWNER not in f.file:
            roots.setdefault(f.root().id, f.root())
    seen = 0
    for root in sorted(roots.values(), key=lambda r: r.path):
        got = set()
        for g in root.family():
            if g.focus:
                _field_reads(g.blocks, ("allow_list", "block_list"), got)
        if not got:
            continue
        if ".rs" in root.file and root.r.get("test"):
            continue
        seen += 1
        chk.analysed(root)
        chk.ob(R, "both-lists:%s" % root.path, got == {"allow_list", "block_list"},
               "%s reads %s of a row-id mask directly" % (root.path, sorted(got)), root.loc())
    chk.floor(R, "functions looking inside a RowIdMask", seen, 2)
    knn = [f for f in db.fns.values() if f.focus and f.file.endswith("io/exec/knn.rs")]
    chk.floor(R, "functions of io/exec/knn.rs analysed", len(knn), 20)
    late = [f for f in knn if "ANNIvfSubIndexExec::late_search" in f.path]
    users = [(g, b, t) for g in late for b, t in calls(g, "RowIdMask::iter_ids")]
    chk.ob(R, "late-search-shortcut-ids", len(users) >= 1,
           "late_search's fewer-than-k shortcut enumerates the combined mask with RowIdMask::iter_ids (%d call(s))" % len(users),
           late[0].loc() if late else None)


def run(db, chk):
    sorted_positions(db, chk)
    deletion_mask(db, chk)
    combine(db, chk)
    mask_taken_whole(db, chk)
    chk.assume("RowIdMask & / from_block / from_allowed and RowIdSequence::mask on ascending positions are correct (C21 decides the mask algebra)")

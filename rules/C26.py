"""C26 Every compression codec is lossless -- encoder / decoder dispatch agreement only.

Decided (AGREE): for each compressor family the set of `pb21::Compression` variants an implementation can emit as its
description (ProtobufUtils21 helper calls reachable from `compress` / from the strategy's create_* function, each helper
mapped to the variant it constructs) is a subset of the variants the matching create_*_decompressor handles with a
non-error arm:
   MiniBlockCompressor::compress            -> create_miniblock_decompressor
   PerValueCompressor::compress             -> create_fixed_per_value_decompressor  U  create_variable_per_value_decompressor
   create_block_compressor (strategy)       -> create_block_decompressor
and every variant of the Compression oneof is either decodable by some factory or emitted by nobody.
Not decided: that decompress(compress(x)) = x, chunk-size limits (values).
"""
from engine.facts import AnchorMissing
from .common import name_of, has_name, calls

LEVEL = "other"
COMP = "lance-encoding/src/compression.rs"


def helper_variants(db):
    """ProtobufUtils21 helper name -> set of Compression variants it constructs."""
    out = {}
    for h in db.fns.values():
        if "ProtobufUtils21" in h.path and h.kind == "method" and h.focus:
            vs = {s["rv"]["variant"] for i, j, s in h.cfg.aggregates(adt="compressive_encoding::Compression")}
            out[h.id] = (h.path.split("::")[-1], vs)
    if len(out) < 10:
        raise AnchorMissing("ProtobufUtils21 helpers not found (%d)" % len(out))
    return out


def emitted(db, f, helpers, depth=3):
    """Variants reachable from f through same-crate calls (bounded) via description helpers; also direct aggregates."""
    seen = {f.id}
    frontier = [f]
    out = {}
    for d in range(depth + 1):
        nxt = []
        for g in frontier:
            for k in g.family():
                if k.focus:
                    for i, j, s in k.cfg.aggregates(adt="compressive_encoding::Compression"):
                        out.setdefault(s["rv"]["variant"], "%s (direct)" % k.path.split("::")[-1])
                for c in k.calls:
                    rid = c.get("rid") or c.get("id")
                    if not rid:
                        continue
                    if rid in helpers:
                        nm, vs = helpers[rid]
                        for v in vs:
                            out.setdefault(v, "%s via ProtobufUtils21::%s" % (g.path.split("::")[-2] if "::" in g.path else g.path, nm))
                    elif rid in db.fns and rid not in seen and rid.startswith("lance_encoding::") and "{closure" not in rid:
                        callee = db.fns[rid]
                        if "encodings/physical" in callee.file or callee.file.endswith("compression.rs"):
                            seen.add(rid)
                            nxt.append(callee)
        frontier = nxt
    return out


def decodable(db, fname):
    """Variants with a non-error arm in DefaultDecompressionStrategy::<fname>."""
    fs = [f for f in db.fns.values() if f.file.endswith(COMP) and f.kind == "method" and f.path.endswith("::" + fname) and
          "DefaultDecompressionStrategy" in f.path]
    if len(fs) != 1:
        raise AnchorMissing("expected one DefaultDecompressionStrategy::%s, found %d" % (fname, len(fs)))
    f = fs[0]
    c = f.cfg
    ok, err = set(), set()
    sws = [b for b in sorted(c.reach0) if c.switch_info(b) and c.switch_info(b)["kind"] == "enum" and
           (c.switch_info(b)["adt"] or "").endswith("compressive_encoding::Compression")]
    if not sws:
        raise AnchorMissing("%s: no match on Compression" % fname)
    # the top-level match: the first one (dominating the others)
    sws.sort(key=lambda b: len(c.idom[b]))
    si = c.switch_info(sws[0])
    oks = {i for (i, j, s) in c.aggregates(adt="Result", variant="Ok") if s["lhs"] == [0]}
    for v, t in si["label_to"].items():
        others = {x for x in si["label_to"].values() if x != t}
        r = c.reachable_from([t], include_start=True, avoid=others)
        if r & oks:
            ok.add(v)
        else:
            err.add(v)
    return f, ok, err


def run(db, chk):
    R = "AGREE-codec"
    chk.rule(R, "emitted Compression variants are a subset of the variants the matching decompressor factory decodes")
    helpers = helper_variants(db)
    fams = {"MiniBlockCompressor": [], "PerValueCompressor": []}
    for f in db.fns.values():
        tr = f.r.get("impl_trait") or ""
        for k in fams:
            if tr.endswith("::" + k) and f.path.endswith("::compress") and f.kind == "method":
                fams[k].append(f)
    chk.floor(R, "MiniBlockCompressor impls", len(fams["MiniBlockCompressor"]), 8)
    chk.floor(R, "PerValueCompressor impls", len(fams["PerValueCompressor"]), 5)
    f_mini, mini_ok, mini_err = decodable(db, "create_miniblock_decompressor")
    f_fix, fix_ok, _ = decodable(db, "create_fixed_per_value_decompressor")
    f_var, var_ok, _ = decodable(db, "create_variable_per_value_decompressor")
    f_blk, blk_ok, _ = decodable(db, "create_block_decompressor")
    for f in (f_mini, f_fix, f_var, f_blk):
        chk.analysed(f)
    table = {"decodable": {"miniblock": sorted(mini_ok), "fixed_per_value": sorted(fix_ok), "variable_per_value": sorted(var_ok), "block": sorted(blk_ok)},
             "emitted": {}}
    for fam, dec_ok, dec_name in (("MiniBlockCompressor", mini_ok, "create_miniblock_decompressor"),
                                  ("PerValueCompressor", fix_ok | var_ok, "create_{fixed,variable}_per_value_decompressor")):
        for f in sorted(fams[fam], key=lambda x: x.r["impl_self"]):
            chk.analysed(f)
            em = emitted(db, f, helpers)
            ty = f.r["impl_self"].split("::")[-1]
            table["emitted"]["%s for %s" % (fam, ty)] = sorted(em)
            chk.ob(R, "%s:%s:describes-itself" % (fam, ty), bool(em), "%s::compress of %s emits description variant(s) %s" % (fam, ty, sorted(em)), f.loc())
            for v, how in sorted(em.items()):
                chk.ob(R, "%s:%s:%s" % (fam, ty, v), v in dec_ok,
                       "%s (%s) can emit Compression::%s [%s]; %s %s it" % (ty, fam, v, how, dec_name, "decodes" if v in dec_ok else "has NO decoding arm for"), f.loc())
    # block family: the strategy function
    strat = [f for f in db.fns.values() if f.file.endswith(COMP) and f.kind == "method" and f.path.endswith("::create_block_compressor") and
             "DefaultCompressionStrategy" in f.path]
    if len(strat) != 1:
        raise AnchorMissing("DefaultCompressionStrategy::create_block_compressor not found (%d)" % len(strat))
    chk.analysed(strat[0])
    em = emitted(db, strat[0], helpers)
    table["emitted"]["create_block_compressor"] = sorted(em)
    chk.ob(R, "block:describes", bool(em), "create_block_compressor emits description variant(s) %s" % sorted(em), strat[0].loc())
    for v, how in sorted(em.items()):
        chk.ob(R, "block:%s" % v, v in blk_ok, "create_block_compressor can emit Compression::%s [%s]; create_block_decompressor %s it" % (
            v, how, "decodes" if v in blk_ok else "has NO decoding arm for"), strat[0].loc())
    # every variant of the oneof is decodable somewhere or emitted nowhere
    adt = db.adts.get("format::pb21::compressive_encoding::Compression")
    if adt is None:
        raise AnchorMissing("Compression oneof not found")
    allv = [v["name"] for v in adt["variants"]]
    emitted_all = set()
    for vs in table["emitted"].values():
        emitted_all |= set(vs)
    dec_all = mini_ok | fix_ok | var_ok | blk_ok
    for v in allv:
        chk.ob(R, "oneof:%s" % v, v in dec_all or v not in emitted_all,
               "Compression::%s: emitted=%s decodable=%s" % (v, v in emitted_all, v in dec_all))
    chk.floor(R, "Compression variants", len(allv), 12)
    chk.extra["codec_dispatch"] = table
    chk.sample(table["decodable"])

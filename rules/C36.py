"""C36 Namespace catalog behaves as a hierarchical map -- name -> key faithfulness.

Decided:
  ORIGIN/INV  every SQL filter / delete predicate built in the namespace implementations by interpolating a value between
              single quotes (`object_id = '{}'`, `starts_with(object_id, '{}..')`) and handed to Scanner::filter / Dataset::delete
              must take that value from a sanitiser (a function that rejects or escapes `'`); otherwise a name containing a
              quote changes the predicate (another entry is read or deleted)
  DOM         every component joined with the id DELIMITER (`$`) must have passed a rejection of the delimiter; otherwise two
              different (namespace path, name) pairs map to one object id
  DOM         table names used as path segments are rejected when they contain `/`, `..` or a scheme (existing checks on
              user-supplied locations are the instances)
Not decided: map semantics and pagination completeness as behaviour.
"""
from engine.cfg import op_place, expr_of
from engine.facts import AnchorMissing
from .common import user_body, calls, name_of, has_name, origin_has_call, origin_calls

LEVEL = "other"
CRATE = "lance-namespace-impls/src/"
SANITISER_HINTS = ("escape", "sanitize", "sanitise", "validate_id", "validate_name", "check_valid", "quote_literal")


def sql_templates(m):
    """Indexes of placeholders that sit inside a single-quoted SQL literal of template m."""
    ps = m["pieces"]
    out = []
    depth_open = False
    for i, p in enumerate(ps):
        if "lit" in p:
            # toggle quote state for every ' in the literal
            for ch in p["lit"]:
                if ch == "'":
                    depth_open = not depth_open
        elif "arg" in p and depth_open:
            out.append(p["arg"])
    return out


def _ends_with_delimiter(m):
    """The formatted text ends with the DELIMITER constant (last piece is `{}` fed by DELIMITER)."""
    if not m["pieces"]:
        return False
    last = m["pieces"][-1]
    return "arg" in last and m["args"][last["arg"]]["src"] == "DELIMITER"


def check_prefix_delimited(db, chk, by_root):
    """`starts_with(object_id, '<p>')` selects "everything under namespace <id>" only when <p> = <id> + DELIMITER: without the
    trailing delimiter the sibling `<id>x` (and its children) match as well, so an operation on one name sees another's rows."""
    R = "TABLE-prefix-delimited"
    chk.rule(R, "the text interpolated into every starts_with(object_id, '...') catalog predicate ends with DELIMITER "
                "(directly, or through a variable whose every definition is a format! ending with DELIMITER)")
    n = 0
    for rid, fam in sorted(by_root.items()):
        root = db.fns[rid]
        for k in fam:
            ms = db.fmts_in(k)
            for m in ms:
                owners = [k2 for k2 in fam if k2.r["body_lo"] <= m["line"] <= k2.r["body_hi"]]
                if max(owners, key=lambda x: (x.id.count("{closure"), -(x.r["body_hi"] - x.r["body_lo"]))) is not k:
                    continue
                ps = m["pieces"]
                for i, p in enumerate(ps):
                    if "lit" not in p or not p["lit"].endswith("starts_with(object_id, '"):
                        continue
                    seg = []
                    for q in ps[i + 1:]:
                        if "arg" in q:
                            seg.append(m["args"][q["arg"]])
                        else:
                            break
                    n += 1
                    chk.analysed(k)
                    ok, how = False, "nothing is interpolated"
                    if seg:
                        last = seg[-1]
                        if last["src"] == "DELIMITER":
                            ok, how = True, "`%s` followed by DELIMITER" % "".join("{%s}" % a["src"] for a in seg[:-1])
                        elif last["ident"]:
                            defs = [d for g in fam for j, l in enumerate(g.locals) if l.get("name") == last["ident"]
                                    for d in g.cfg.defs.get(j, {"whole": []})["whole"]]
                            lines = set()
                            for d in defs:
                                lines.add(d[2].get("ln") if d[0] == "call" else d[3].get("ln"))
                            allm = {(m2["line"], m2["col"]): m2 for g in fam for m2 in db.fmts_in(g)}
                            feeders = [m2 for m2 in allm.values() if m2 is not m and m2["line"] in lines]
                            ok = bool(defs) and len(feeders) == len(lines) and all(_ends_with_delimiter(m2) for m2 in feeders)
                            how = "`%s` = %s" % (last["ident"], [("format!(%r, %s)" % ("".join(x.get("lit", "{}") for x in m2["pieces"]), ", ".join(a["src"] for a in m2["args"]))) for m2 in feeders] or "not a format! in this function")
                        else:
                            how = "`%s` is not a delimited prefix" % last["src"]
                    chk.ob(R, "%s|%s" % (root.path, "".join(x.get("lit", "{}") for x in ps)[:60]), ok,
                           "starts_with(object_id, ...) prefix: %s%s" % (how, "" if ok else " -- does not end with DELIMITER: a sibling whose name merely begins with this id matches too"),
                           k.loc(m["line"]))
    chk.floor(R, "starts_with(object_id, ..) predicates", n, 3)


def run(db, chk):
    R = "ORIGIN-sql-literal"
    chk.rule(R, "values interpolated into quoted SQL literals of catalog predicates come from a sanitiser")
    sites = 0
    fns = [f for f in db.fns.values() if CRATE in f.file and f.focus]
    by_root = {}
    for f in fns:
        by_root.setdefault(f.root().id, []).append(f)
    for rid, fam in sorted(by_root.items()):
        root = db.fns[rid]
        sinks = [(k, b, t) for k in fam for b, t in k.cfg.calls()
                 if has_name(t, "Scanner::filter", "Dataset::delete", "DeleteBuilder", "Scanner::<'_>::filter") and "::{closure#" not in name_of(t)]
        if not sinks:
            continue
        for k in fam:
            for m in db.fmts_in(k):
                quoted = sql_templates(m)
                if not quoted:
                    continue
                tpl = "".join(x.get("lit", "{}") for x in m["pieces"])
                if not any(w in tpl for w in ("object_id", "object_type", "starts_with", "contains(")):
                    continue   # a message, not a predicate
                # innermost owner only (deepest closure nesting among the family members whose span contains the line)
                owners = [k2 for k2 in fam if k2.r["body_lo"] <= m["line"] <= k2.r["body_hi"]]
                deepest = max(owners, key=lambda x: (x.id.count("{closure"), -(x.r["body_hi"] - x.r["body_lo"])))
                if deepest is not k:
                    continue
                chk.analysed(k)
                for ai in sorted(set(quoted)):
                    a = m["args"][ai]
                    sites += 1
                    ident = a["ident"]
                    sanitised = False
                    org_names = []
                    if a["src"].isupper() or a["src"] in ("DELIMITER",):
                        sanitised = True   # a constant of the implementation, not user input
                    elif ident:
                        loc_ = [i for i, l in enumerate(k.locals) if l.get("name") == ident]
                        for l in loc_:
                            o = k.cfg.origins(l)
                            org_names += origin_calls(o)
                            if any(any(h in (n or "").lower() for h in SANITISER_HINTS) for n in origin_calls(o)):
                                sanitised = True
                    chk.ob(R, "%s|%s|%s" % (root.path, tpl, a["src"]), sanitised,
                           "predicate `%s` interpolates `%s` inside a quoted literal; its value comes from %s -- %s" % (
                               tpl, a["src"], sorted(set(org_names))[:4] or "the caller",
                               "sanitised" if sanitised else "NOT from a sanitiser: a name containing `'` rewrites the predicate (wrong entry read / deleted)"),
                           k.loc(m["line"]))
    chk.floor(R, "quoted interpolations in catalog predicates", sites, 5)

    check_prefix_delimited(db, chk, by_root)

    R2 = "DOM-delimiter"
    chk.rule(R2, "components joined with the object-id delimiter have been checked not to contain it")
    delim = db.consts.get("dir::manifest::DELIMITER")
    if delim is None:
        raise AnchorMissing("DELIMITER constant not found")
    chk.ob(R2, "delimiter-const", isinstance(delim["val"], str) and len(delim["val"]) == 1, "DELIMITER = %r" % delim["val"], "%s:%s" % (delim["file"], delim["line"]))
    joins = 0
    for f in fns:
        c = f.cfg
        for b, t in c.calls():
            def is_delim(a):
                if (a.get("cdef") or "").endswith("DELIMITER"):
                    return True
                e = expr_of(f, a)
                while e[0] in ("ref", "deref"):
                    e = e[1]
                return e[0] == "const" and (e[2] or "").endswith("DELIMITER")
            if has_name(t, "::join", "Join<", "String::push_str") and any(is_delim(a) for a in t["args"]):
                joins += 1
                # a rejection of DELIMITER (str::contains(DELIMITER) leading to an error) must dominate the join in this function,
                # or the function must be fed only by callers that did it (one-level: a validator call on the joined value)
                guards = [bb for bb, tt in c.calls() if has_name(tt, "str>::contains", "str::<impl str>::contains") and
                          any((a.get("cdef") or "").endswith("DELIMITER") or a.get("v") == delim["val"] for a in tt["args"]) and c.dominates(bb, b)]
                validated = bool(guards) or any(any(h in name_of(tt).lower() for h in SANITISER_HINTS) and c.dominates(bb, b) for bb, tt in c.calls())
                chk.ob(R2, "join:%s" % f.root().path, validated,
                       "%s joins id components with `%s`%s" % (f.root().path, delim["val"], "" if validated else
                                                              " without any check that a component contains it: (ns=[a], name=b%sc) and (ns=[a,b], name=c) get the same object id" % delim["val"]),
                       f.loc(t["ln"]))
    chk.floor(R2, "delimiter join sites", joins, 3)

    R3 = "DOM-location"
    chk.rule(R3, "user-supplied table locations are rejected when absolute or escaping the root")
    reg = [f for f in fns if "register_table" in f.path and f.kind != "closure"]
    found = 0
    for f in reg:
        for k in f.family():
            c = k.cfg
            cont = [(b, t) for b, t in c.calls() if has_name(t, "str>::contains", "str::<impl str>::contains") and any(a.get("v") in ("..", "://") for a in t["args"])]
            if cont:
                chk.analysed(k)
                vals = sorted({a.get("v") for _, t in cont for a in t["args"] if a.get("v") in ("..", "://")})
                found += 1
                chk.ob(R3, "location-checks:%s" % f.root().path, vals == ["..", "://"], "register_table rejects locations containing %s" % vals, k.loc(cont[0][1]["ln"]))
    chk.floor(R3, "location validation sites", found, 1)
    chk.sample({"sql_sites": sites, "delimiter_joins": joins})

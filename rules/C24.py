"""C24 Index coverage is never claimed for data the index did not see.

Decided (conflict / prune shape):
  ARMS   (CreateIndex, DataReplacement) and converse are conditional on the indexed fields vs replaced fields;
         (CreateIndex, Rewrite) and converse are conditional on the new indices' fragment bitmaps vs the rewritten
         fragments (or deferred through the frag-reuse index)
  ARMS   sibling rule: a committed operation that rewrites a column in place is DataReplacement *or* Update with
         non-empty fields_modified; check_create_index_txn must treat the two alike: (CreateIndex, Update) must be
         conditional on Update.fields_modified vs the new indices' fields
  DOM    build_manifest, Update arm: prune_updated_fields_from_indices(final_indices, updated_fragments, fields_modified)
         is on every successful path of the arm; the prune removes fragments from bitmaps under a field-overlap guard and
         returns early only when fields_modified is empty
  DOM    build_manifest, Rewrite arm: every successful path recomputes the fragment bitmaps (stable row ids) or remaps
         the indices (handle_rewrite_indices); the choice depends on next_row_id
  DOM    register_pure_rewrite_rows_update_frags_in_indices adds fragments to a bitmap only when the index does not
         cover a value-updated field and covers all original fragments
Not decided: index contents; that bitmaps are computed correctly.
"""
from engine.cfg import op_place
from engine.facts import AnchorMissing
from . import matrix
from .C03 import check_matrix, apply_oracle
from .common import user_body, calls, one_call, name_of, has_name, origin_has_call, origin_calls, ok_targets

LEVEL = "other"
TX = "lance/src/dataset/transaction.rs"


def check_cells(db, chk):
    only = {("CreateIndex", o) for o in ("DataReplacement", "Rewrite", "Update")} | {(s, "CreateIndex") for s in ("DataReplacement", "Rewrite")}
    variants, M = check_matrix(db, chk, only=only)
    dep = {
        ("CreateIndex", "DataReplacement"): ([["CreateIndex.new_indices"], ["DataReplacement.replacements"], ["fields"]],
                                             "a data replacement of an indexed field invalidates the index being created"),
        ("DataReplacement", "CreateIndex"): ([["CreateIndex.new_indices"], ["fields"]],
                                             "replacing a field that a concurrently created index covers"),
        ("CreateIndex", "Rewrite"): ([["CreateIndex.new_indices"], ["Rewrite.groups"], ["fragment_bitmap"], ["Rewrite.frag_reuse_index"]],
                                     "compaction moved rows the new index addresses, unless remapping is deferred"),
        ("Rewrite", "CreateIndex"): ([["CreateIndex.new_indices"], ["Rewrite.groups", "modified_fragment_ids"], ["fragment_bitmap"]],
                                     "a new index covers fragments this compaction rewrites"),
        ("CreateIndex", "Update"): ([["Update.fields_modified"], ["CreateIndex.new_indices"]],
                                    "an Update with fields_modified rewrites a column in place exactly like DataReplacement: the new "
                                    "index's fragment bitmap would claim fragments whose indexed values changed"),
    }
    apply_oracle(chk, M, {}, dep, R="ARMS-index")
    return M


def arm_region(c, var, root=1):
    """Blocks reachable under `match self.operation { var => .. }` switches (place rooted at param `root`)."""
    sws = [b for b in sorted(c.reach0) if matrix._is_op_switch(c.switch_info(b)) and c.switch_info(b)["place"][0] == root]

    def ef(b):
        if b in sws:
            si = c.switch_info(b)
            return [si["label_to"][var]] if var in si["label_to"] else []
        return None
    return sws, ef


def ok_returns(c, blocks):
    return [i for (i, j, s) in c.aggregates(adt="Result", variant="Ok") if i in blocks and s["lhs"] == [0]]


def check_build_manifest(db, chk):
    R = "DOM-build"
    chk.rule(R, "build_manifest arms: prune / recalculation on every successful path of the arm")
    f = db.one(r"^dataset::transaction::Transaction::build_manifest$", file=TX)
    chk.analysed(f)
    c = f.cfg
    # ---- Update arm
    sws, ef = arm_region(c, "Update")
    if not sws:
        raise AnchorMissing("build_manifest: no match on self.operation")
    reach = c.reachable_from([0], include_start=True, edge_filter=ef)
    prune = [(b, t) for b, t in calls(f, "Transaction::prune_updated_fields_from_indices") if b in reach]
    chk.floor(R, "prune_updated_fields_from_indices call sites (Update arm)", len(prune), 1)
    oks = ok_returns(c, reach)
    if prune:
        r_wo = c.reachable_from([0], include_start=True, edge_filter=ef, avoid=[b for b, _ in prune])
        esc = [o for o in oks if o in r_wo]
        chk.ob(R, "update:prune-on-every-ok-path", bool(oks) and not esc,
               "every successful path of the Update arm passes prune_updated_fields_from_indices (escaping Ok blocks: %s)" % esc,
               f.loc(prune[0][1]["ln"]))
        pt = prune[0][1]
        o1 = c.op_origins(pt["args"][1])
        o2 = c.op_origins(pt["args"][2])
        chk.ob(R, "update:prune-args", ("field", "updated_fragments") in o1 and ("field", "fields_modified") in o2,
               "prune is applied to the operation's updated_fragments and fields_modified", f.loc(pt["ln"]))
        o0 = c.op_origins(pt["args"][0], transparent=lambda t: True)
        chk.ob(R, "update:prune-on-final-indices", ("arg", 3) in o0, "prune operates on the index list that is returned (current_indices)", f.loc(pt["ln"]))
    # ---- DataReplacement arm: the sibling of an in-place Update (column values of existing fragments change under the same
    # fragment ids), so the same pruning is required: an index on a replaced field must stop claiming the replaced fragments
    sws, ef = arm_region(c, "DataReplacement")
    reach = c.reachable_from([0], include_start=True, edge_filter=ef)
    prune = [(b, t) for b, t in calls(f, "Transaction::prune_updated_fields_from_indices") if b in reach]
    oks = ok_returns(c, reach)
    if not prune:
        chk.ob(R, "datareplacement:prune-on-every-ok-path", False,
               "the DataReplacement arm never calls prune_updated_fields_from_indices: an index on a replaced field keeps the replaced "
               "fragments in its bitmap and answers with the old values", f.loc())
    else:
        r_wo = c.reachable_from([0], include_start=True, edge_filter=ef, avoid=[b for b, _ in prune])
        esc = [o for o in oks if o in r_wo]
        chk.ob(R, "datareplacement:prune-on-every-ok-path", bool(oks) and not esc,
               "every successful path of the DataReplacement arm passes prune_updated_fields_from_indices (escaping Ok blocks: %s)" % esc,
               f.loc(prune[0][1]["ln"]))
        pt = prune[0][1]
        T = lambda t: True
        o1 = c.op_origins(pt["args"][1], transparent=T)
        o2 = c.op_origins(pt["args"][2], transparent=T)
        o0 = c.op_origins(pt["args"][0], transparent=T)
        f1 = {x[1] for x in o1 if x[0] == "field"}
        f2 = {x[1] for x in o2 if x[0] == "field"}
        clos2 = [db.fns[x[1]] for x in o2 if x[0] == "closure" and x[1] in db.fns]
        reads_fields = "fields" in f2 or any(isinstance(e, dict) and e.get("f") == "fields" for k in clos2 for _, _, s in k.cfg.stmts()
                                             for p in matrix.places_in_stmt(s) for e in p)
        chk.ob(R, "datareplacement:prune-args", "replacements" in f1 and "replacements" in f2 and reads_fields,
               "prune is applied to the fragments named by the replacements and to the replaced data files' fields", f.loc(pt["ln"]))
        chk.ob(R, "datareplacement:prune-on-final-indices", ("arg", 3) in o0, "prune operates on the index list that is returned (current_indices)", f.loc(pt["ln"]))
        # every replaced fragment is handed to the prune: the list it receives is filled by a push on EVERY way through the
        # per-replacement loop (a replacement that only adds a file for a so-far all-NULL column changes the column's values in
        # that fragment just the same: an index built on the NULLs no longer describes it)
        pushes = sorted({x[2] for x in o1 if x[0] == "mutated-by" and (x[1] or "").endswith("::push")})
        cands = [b for b, t in c.calls() if b in reach and name_of(t).endswith("::next") and pushes and all(c.dominates(b, pb) for pb in pushes)]

        def in_loop(h, x):
            # x lies in the loop headed by h: it gets back to h without going through the head of an enclosing loop
            return h in c.reachable_from([x], avoid=[h2 for h2 in cands if h2 != h and c.dominates(h2, h)])
        heads = [b for b in cands if all(in_loop(b, pb) for pb in pushes)]
        inner = [h for h in heads if all(c.dominates(o_, h) for o_ in heads)]
        skipped = None
        if pushes and inner:
            h = inner[0]
            some = None
            for sb in sorted(reach):
                si = c.switch_info(sb)
                if si and si["kind"] == "enum" and (si["adt"] or "").endswith("option::Option") and "Some" in si["label_to"] and c.dominates(h, sb) and \
                        si["place"] and si["place"][0] == (c.blocks[h]["term"].get("dest") or [None])[0]:
                    some = si["label_to"]["Some"]
                    break
            if some is not None:
                skipped = h in c.reachable_from([some], include_start=True, avoid=pushes)
        chk.ob(R, "datareplacement:every-replaced-fragment-pruned", skipped is False,
               "the list given to the prune is filled on every way through the per-replacement loop (pushes at blocks %s; an iteration can "
               "finish without one: %s)" % (pushes, skipped), f.loc(pt["ln"]))
    # ---- Rewrite arm
    sws, ef = arm_region(c, "Rewrite")
    reach = c.reachable_from([0], include_start=True, edge_filter=ef)
    recalc = [(b, t) for b, t in calls(f, "Transaction::recalculate_fragment_bitmap") if b in reach]
    remap = [(b, t) for b, t in calls(f, "Transaction::handle_rewrite_indices") if b in reach]
    chk.ob(R, "rewrite:both-strategies", len(recalc) == 1 and len(remap) == 1,
           "Rewrite arm has a bitmap-recalculation site (%d) and an index-remap site (%d)" % (len(recalc), len(remap)), f.loc())
    if recalc and remap:
        # the loop that recalculates iterates final_indices: find the iter_mut feeding the loop that contains recalc
        loops = [(b, t) for b, t in c.calls() if b in reach and has_name(t, "::iter_mut") and c.dominates(b, recalc[0][0])]
        oks = ok_returns(c, reach)
        avoid = [remap[0][0]] + [b for b, _ in loops]
        r_wo = c.reachable_from([0], include_start=True, edge_filter=ef, avoid=avoid)
        esc = [o for o in oks if o in r_wo]
        chk.ob(R, "rewrite:index-handling-on-every-ok-path", bool(oks) and bool(loops) and not esc,
               "every successful path of the Rewrite arm either walks the index list recalculating bitmaps or remaps the indices "
               "(escaping Ok blocks: %s)" % esc, f.loc(remap[0][1]["ln"]))
        # choice depends on next_row_id
        dep_ok = False
        for b in sorted(reach):
            si = c.switch_info(b)
            if si and c.dominates(b, remap[0][0]) and not c.dominates(b, recalc[0][0]) is None:
                p = op_place(c.blocks[b]["term"]["on"])
                if p is None:
                    continue
                org = c.origins(p[0], transparent=lambda t: True)
                names = {fn_.locals[0]["name"] for fn_ in []}
                if any(o[0] == "call" and False for o in org):
                    pass
                # the switched value derives from the local named next_row_id
                nr = [i for i, l in enumerate(f.locals) if l.get("name") == "next_row_id"]
                if nr and any(c.dominates(b, x) for x in (remap[0][0],)) and _derives_from(c, p[0], set(nr)):
                    tg = si["label_to"]
                    sides = [c.reachable_from([t], include_start=True, avoid=[u for u in tg.values() if u != t]) for t in set(tg.values())]
                    if any(remap[0][0] in s_ and recalc[0][0] not in s_ for s_ in sides):
                        dep_ok = True
        chk.ob(R, "rewrite:choice-on-next_row_id", dep_ok, "the recalc-vs-remap choice branches on next_row_id (stable row ids)", f.loc())
    # ---- prune body
    pf = db.one(r"^dataset::transaction::Transaction::prune_updated_fields_from_indices$", file=TX)
    chk.analysed(pf)
    pc = pf.cfg
    rem = calls(pf, "RoaringBitmap>::remove")
    chk.floor(R, "bitmap.remove sites in prune", len(rem), 1)
    emp = [(b, t) for b, t in calls(pf, "::is_empty")]
    ok_early = False
    for b, t in emp:
        o = pc.op_origins(t["args"][0])
        if ("arg", 3) in o:
            sws_ = [x for x in pc.reach0 if pc.switch_info(x) and pc.switch_info(x)["kind"] == "bool" and pc.bool_def(x) and pc.bool_def(x)[0] == "call" and pc.bool_def(x)[1] == b]
            for x in sws_:
                tg = pc.switch_info(x)["label_to"]
                r_f = pc.reachable_from([tg[False]], include_start=True, avoid=[tg[True]])
                ok_early = all(rb in r_f for rb, _ in rem)
    chk.ob(R, "prune:early-return-only-if-no-fields", ok_early,
           "prune returns early only when fields_modified is empty; otherwise the removal loop is reachable", pf.loc())
    fam = pf.family()
    covers = any(isinstance(e, dict) and e.get("f") == "fields" for k in fam for _, _, s in k.cfg.stmts()
                 for p in ([s.get("lhs")] + [(s.get("rv") or {}).get("place")]) if p for e in p)
    chk.ob(R, "prune:field-overlap-guard", covers, "the removal is guarded by a test over index.fields", pf.loc())
    # ---- register_pure_rewrite_rows_update_frags_in_indices
    rf = db.one(r"^dataset::transaction::Transaction::register_pure_rewrite_rows_update_frags_in_indices$", file=TX)
    chk.analysed(rf)
    rc = rf.cfg
    ins = calls(rf, "RoaringBitmap>::insert")
    chk.floor(R, "bitmap.insert sites in register_pure_rewrite", len(ins), 1)
    anys = [(b, t) for b, t in rc.calls() if has_name(t, "Iterator>::any", "Iterator::any")]
    alls = [(b, t) for b, t in rc.calls() if has_name(t, "Iterator>::all", "Iterator::all")]
    ok_any = ok_all = False
    for ib, it_ in ins:
        for b, t in anys:
            for x in [x for x in rc.reach0 if rc.switch_info(x) and rc.switch_info(x)["kind"] == "bool" and rc.dominates(x, ib)]:
                p = op_place(rc.blocks[x]["term"]["on"])
                if p and _derives_from_call(rc, p[0], b):
                    tg = rc.switch_info(x)["label_to"]
                    # `!any` : insertion must be on the side where any(..) is false
                    neg = _negations(rc, p[0], b)
                    side = tg[True] if neg % 2 == 1 else tg[False]
                    ok_any = ok_any or rc.dominates(side, ib)
        for b, t in alls:
            for x in [x for x in rc.reach0 if rc.switch_info(x) and rc.switch_info(x)["kind"] == "bool" and rc.dominates(x, ib)]:
                p = op_place(rc.blocks[x]["term"]["on"])
                if p and _derives_from_call(rc, p[0], b):
                    tg = rc.switch_info(x)["label_to"]
                    neg = _negations(rc, p[0], b)
                    side = tg[False] if neg % 2 == 1 else tg[True]
                    ok_all = ok_all or rc.dominates(side, ib)
    chk.ob(R, "register:only-if-index-not-on-updated-field", ok_any,
           "bitmap.insert is reachable only when no index field is a value-updated field", rf.loc())
    chk.ob(R, "register:only-if-covers-all-originals", ok_all,
           "bitmap.insert is reachable only when the index covers all original fragments", rf.loc())


def _derives_from(c, local, targets, depth=8):
    seen, work = set(), [local]
    while work and depth:
        l = work.pop()
        if l in targets:
            return True
        if l in seen:
            continue
        seen.add(l)
        d = c.defs.get(l)
        if not d:
            continue
        for kind in ("whole", "part"):
            for df in d[kind]:
                if df[0] == "assign":
                    rv = df[3]["rv"]
                    for k in ("op", "a", "b"):
                        if rv.get(k):
                            p = op_place(rv[k])
                            if p:
                                work.append(p[0])
                    if rv.get("place"):
                        work.append(rv["place"][0])
                elif df[0] == "call":
                    for a in df[2]["args"]:
                        p = op_place(a)
                        if p:
                            work.append(p[0])
    return False


def _derives_from_call(c, local, call_bb):
    d = c.single_def(local)
    for _ in range(6):
        if d is None:
            return False
        if d[0] == "call":
            return d[1] == call_bb
        if d[0] == "assign":
            rv = d[3]["rv"]
            p = op_place(rv.get("op") or rv.get("a") or {}) if rv["r"] in ("use", "un") else None
            if p is None or len(p) != 1:
                return False
            d = c.single_def(p[0])
        else:
            return False
    return False


def _negations(c, local, call_bb):
    n = 0
    d = c.single_def(local)
    for _ in range(6):
        if d is None or d[0] == "call":
            return n
        rv = d[3]["rv"]
        if rv["r"] == "un" and rv["op"] == "Not":
            n += 1
            p = op_place(rv["a"])
        elif rv["r"] == "use":
            p = op_place(rv["op"])
        else:
            return n
        if p is None:
            return n
        d = c.single_def(p[0])
    return n


def run(db, chk):
    check_cells(db, chk)
    check_build_manifest(db, chk)

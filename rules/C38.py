"""C38 Caching is transparent -- key discriminators only.

Decided:
  COVER   every `impl CacheKey` in the session / index / scalar-index caches builds its key from every field of the key struct
          and the literal prefixes of keys that share a cache are pairwise distinct (no two kinds of value under one string)
  INV     every cache handle stored in a Dataset originates from `for_dataset(uri)` (dataset-scoped prefix), never the
          session-global cache
  INCARNATION  a key whose payload is derived from the manifest of version v must carry something that tells apart two
          incarnations of a table at the same URI with the same v (e-tag, uuid, content id): version-only and
          fragment-id-only keys are listed
Not decided: result equality under eviction / capacity (run-time behaviour of the cache).
"""
from engine.cfg import op_place, expr_of
from engine.facts import AnchorMissing
from .common import user_body, calls, name_of, has_name, origin_has_call, origin_calls

LEVEL = "other"

SESSION_FILES = ("lance/src/session/caches.rs", "lance/src/session/index_caches.rs")
# discriminator classes
CONTENT_FIELDS = {"e_tag", "uuid", "fri_uuid", "deletion_file", "value", "page_number", "token_id", "row_offset"}
WEAK_FIELDS = {"version", "fragment_id"}

# per key: why it survives drop-and-recreate at the same URI
REVIEWED_DISCRIMINATOR = {
    "session::caches::ManifestKey<'_>": "e_tag (when the store provides one) distinguishes incarnations",
    "session::caches::DeletionFileKey<'_>": "deletion files are named by a random id (C06)",
    "session::index_caches::FragReuseIndexKey<'_>": "index uuid (content addressed)",
    "session::index_caches::ScalarIndexDetailsKey<'_>": "index uuid (content addressed)",
}


def key_impls(db):
    return sorted([f for f in db.fns.values() if (f.r.get("impl_trait") or "").endswith("cache::CacheKey") and f.path.endswith("::key")],
                  key=lambda f: (f.file, f.line))


def struct_fields(db, self_ty):
    adt = db.adts.get(self_ty.split("<")[0])
    if adt is None:
        return None
    return [x["name"] for x in adt["variants"][0]["fields"] if not x["name"].startswith("_")]


# ---- the URI that scopes what load_manifest caches is the URI of the Dataset that will read it --------------------------
_PASS = ("deref", "as_ref", "clone", "as_str", "as_deref", "borrow", "to_owned", "as_mut", "cloned")


def _norm(e):
    """Strip references / smart-pointer hops / clones: the place the value was read from."""
    while isinstance(e, tuple):
        if e[0] in ("ref", "deref", "as"):
            e = e[1]
        elif e[0] == "call" and e[2] and (e[1] or "").split("::")[-1] in _PASS:
            e = e[2][0]
        else:
            break
    if not isinstance(e, tuple):
        return ("?", repr(e))
    if e[0] == "field":
        if e[2].startswith("^"):
            return ("var", e[2][1:])
        return ("field", _norm(e[1]), e[2])
    if e[0] == "call":
        return ("call", (e[1] or "").split("::")[-1], tuple(_norm(a) for a in e[2]))
    if e[0] == "unknown":
        return ("local", e[1].split(" has ")[0])
    return e


def _subst(d, binding):
    if not isinstance(d, tuple):
        return d
    if d[0] == "var" and d[1] in binding:
        return binding[d[1]]
    if d[0] == "param" and d[1] in binding:
        return binding[d[1]]
    if d[0] == "field":
        return ("field", _subst(d[1], binding), d[2])
    return d


def _show(d):
    if not isinstance(d, tuple):
        return str(d)
    if d[0] == "field":
        return "%s.%s" % (_show(d[1]), d[2])
    if d[0] == "var":
        return d[1]
    if d[0] == "call":
        return "%s(%s)" % (d[1], ", ".join(_show(a) for a in d[2]))
    return "%s" % (d[1],)


def _named_param(fn, e):
    """('param', n) of an fn item -> ('var', name) so that fn items and their async bodies speak the same language."""
    if isinstance(e, tuple) and e[0] == "param":
        nm = fn.locals[e[1]].get("name") if e[1] < len(fn.locals) else None
        if nm:
            return ("var", nm)
    if isinstance(e, tuple) and e[0] == "local":
        try:
            nm = fn.locals[int(e[1].split("_")[-1])].get("name")
        except (ValueError, IndexError):
            nm = None
        return ("local", nm or e[1])
    if isinstance(e, tuple) and e[0] == "field":
        return ("field", _named_param(fn, e[1]), e[2])
    return e


def _load_sites(db, root, depth=2, seen=()):
    """[(fn, line, uri descriptor, session descriptor, via)] for every load_manifest reached from `root`'s family, through
    helpers of the same crate up to `depth` calls deep (the helper's own parameters substituted by the caller's arguments)."""
    out = []
    for f in root.family():
        if not f.focus:
            continue
        for i, t in f.cfg.calls():
            n = name_of(t)
            if n.endswith("Dataset::load_manifest"):
                a = t["args"]
                out.append((f, t.get("ln"), _named_param(f, _norm(expr_of(f, a[2]))), _named_param(f, _norm(expr_of(f, a[3]))), []))
                continue
            if depth <= 0 or not t.get("id"):
                continue
            g = db.fns.get(t["id"])
            if g is None or not g.focus or g.parent or g.id in seen or g.root().id == root.id or g.crate != root.crate:
                continue
            inner = _load_sites(db, g, depth - 1, seen + (root.id,))
            if not inner:
                continue
            binding = {}
            for k, a in enumerate(t["args"]):
                nm = g.locals[k + 1].get("name") if k + 1 < len(g.locals) else None
                d = _named_param(f, _norm(expr_of(f, a)))
                if nm:
                    binding[nm] = d
                binding[k + 1] = d
            for (_, ln, u, s_, via) in inner:
                out.append((f, t.get("ln"), _subst(u, binding), _subst(s_, binding), [g.path.split("::")[-1]] + via))
    return out


def check_load_scope(db, chk):
    R = "AGREE-load-scope"
    chk.rule(R, "load_manifest(store, location, uri, session) caches what it decodes (the index section) under "
                "session.index_cache.for_dataset(uri); the Dataset built from that manifest reads it back under "
                "for_dataset(<the uri given to checkout_manifest>): where one function loads a manifest with a session it "
                "keeps and builds a Dataset from it, the two URIs are the same value (helpers inlined two calls deep)")
    roots = {}
    for f in db.fns.values():
        if f.focus and f.crate == "lance" and any(name_of(t).endswith("Dataset::checkout_manifest") for _, t in f.cfg.calls()):
            roots[f.root().id] = f.root()
    n = 0
    for root in sorted(roots.values(), key=lambda r: r.path):
        builds = []
        for f in root.family():
            if not f.focus:
                continue
            for i, t in f.cfg.calls():
                if name_of(t).endswith("Dataset::checkout_manifest"):
                    a = t["args"]
                    builds.append((f, t.get("ln"), _named_param(f, _norm(expr_of(f, a[2]))), _named_param(f, _norm(expr_of(f, a[5])))))
        loads = _load_sites(db, root)
        for f in root.family():
            chk.analysed(f)
        if not loads:
            chk.info("%s builds a Dataset from a manifest it was handed (no load_manifest in reach)" % root.path)
            continue
        for (f, ln, u, s_, via) in loads:
            n += 1
            kept = any(_same_session(s_, bs) for (_, _, _, bs) in builds)
            agree = [b for b in builds if b[2] == u]
            chk.ob(R, "%s:%s" % (root.path, "/".join(via) or "direct"), bool(agree) or not kept,
                   "load_manifest%s caches under for_dataset(%s); the Dataset is built with uri %s%s" % (
                       (" (via %s)" % "/".join(via)) if via else "", _show(u), sorted(set(_show(b[2]) for b in builds)),
                       "" if kept else " (throw-away session)"), f.loc(ln))
    chk.floor(R, "load_manifest sites next to a Dataset construction", n, 3)


def _same_session(a, b):
    """Both descriptors name the session of the same owner (x.session, session(x), ^session ...)."""
    def owner(d):
        if isinstance(d, tuple) and d[0] == "field" and d[2] == "session":
            return d[1]
        if isinstance(d, tuple) and d[0] == "call" and d[1] == "session" and d[2]:
            return d[2][0]
        return d
    if isinstance(a, tuple) and a[0] == "call" and a[1] == "default":
        return False
    return owner(a) == owner(b)


def run(db, chk):
    R = "COVER-key"
    chk.rule(R, "key() uses every field of the key struct; prefixes within one cache are distinct")
    impls = key_impls(db)
    chk.floor(R, "CacheKey implementations", len(impls), 15)
    prefixes = {}
    table = {}
    for f in impls:
        if not f.focus:
            continue
        chk.analysed(f)
        ty = f.r["impl_self"]
        fields = struct_fields(db, ty)
        if fields is None:
            chk.info("%s: key struct not found among ADTs" % ty)
            continue
        c = f.cfg
        used = set()
        for i, j, s in c.stmts():
            for p in ([s.get("lhs")] if False else []) + [((s.get("rv") or {}).get("place"))] + [op_place((s.get("rv") or {}).get("op") or {})]:
                if p:
                    pc = c.canon(p)
                    if pc[0] == 1:
                        for e in pc[1:]:
                            if isinstance(e, dict) and "f" in e:
                                used.add(e["f"])
                                break
        for b, t in c.calls():
            for a in t["args"]:
                p = op_place(a)
                if p:
                    pc = c.canon(p)
                    if pc[0] == 1:
                        for e in pc[1:]:
                            if isinstance(e, dict) and "f" in e:
                                used.add(e["f"])
                                break
        for b in c.reach0:
            t = c.blocks[b]["term"]
            if t and t["t"] == "switch":
                p = op_place(t["on"])
                if p:
                    pc = c.canon(p)
                    if pc[0] == 1:
                        for e in pc[1:]:
                            if isinstance(e, dict) and "f" in e:
                                used.add(e["f"])
                                break
        missing = [x for x in fields if x not in used]
        chk.ob(R, "uses-all-fields:%s" % ty, not missing, "%s::key() reads fields %s of %s%s" % (ty, sorted(used), fields, "" if not missing else " -- IGNORES %s" % missing), f.loc())
        fm = db.fmts_in(f)
        lits = sorted({(m["pieces"][0].get("lit") or "") for m in fm if m["pieces"]})
        table[ty] = {"fields": fields, "prefixes": lits, "file": f.file.split("rust/")[-1]}
        if any(f.file.endswith(x) for x in SESSION_FILES):
            for l in lits or ["<no literal prefix>"]:
                prefixes.setdefault(l, []).append(ty)
    for l, tys in sorted(prefixes.items()):
        same = sorted(set(tys))
        chk.ob(R, "prefix-unique:%s" % (l or "<empty>"), len(same) == 1 and l not in ("", "<no literal prefix>") or len(same) == 1 and all("index_caches" in t for t in same),
               "session-cache key prefix %r is used by %s%s" % (l, same, "" if l not in ("", "<no literal prefix>") else " (no literal prefix: relies on living in its own cache)"), None)
    chk.extra["cache_key_table"] = table

    R2 = "INV-scope"
    chk.rule(R2, "Dataset cache handles come from for_dataset(uri)")
    n = 0
    for f in db.fns.values():
        if not f.focus or not (f.file.endswith("lance/src/dataset.rs") or f.file.endswith("dataset/write/commit.rs") or f.file.endswith("dataset/builder.rs")):
            continue
        for i, j, s in f.cfg.aggregates(adt="dataset::Dataset"):
            rv = s["rv"]
            for fld in ("metadata_cache", "index_cache"):
                if fld not in rv["fields"]:
                    continue
                o = f.cfg.op_origins(rv["ops"][rv["fields"].index(fld)], transparent=lambda t: not has_name(t, "for_dataset"))
                scoped = origin_has_call(o, "for_dataset")
                carried = ("field", fld) in o or any(x[0] in ("arg", "upvar") for x in o)
                n += 1
                chk.ob(R2, "%s:%s" % (f.root().path, fld), scoped or carried,
                       "Dataset.%s is %s" % (fld, "for_dataset(uri)" if scoped else "carried over from an existing dataset / caller" if carried else "from %s" % origin_calls(o)[:3]),
                       f.loc(s["ln"]))
    chk.floor(R2, "Dataset constructions with cache handles", n, 2)
    for file in SESSION_FILES:
        fs = [f for f in db.fns.values() if f.file.endswith(file) and f.path.endswith("::for_dataset")]
        for f in fs:
            chk.analysed(f)
            cs = calls(f, "LanceCache::with_key_prefix")
            ok = len(cs) == 1 and (("arg", 2) in f.cfg.op_origins(cs[0][1]["args"][1]))
            chk.ob(R2, "for_dataset-prefixes-uri:%s" % file.split("/")[-1], ok, "for_dataset(uri) = with_key_prefix(uri)", f.loc())

    check_load_scope(db, chk)

    R3 = "INCARNATION"
    chk.rule(R3, "session-cache keys must distinguish two incarnations of a table at the same URI and version")
    for f in impls:
        if not any(f.file.endswith(x) for x in SESSION_FILES):
            continue
        ty = f.r["impl_self"]
        fields = struct_fields(db, ty) or []
        strong = [x for x in fields if x in CONTENT_FIELDS]
        weak_only = bool(fields) and not strong
        chk.ob(R3, ty, not weak_only,
               "%s is keyed by %s: %s" % (ty, fields, REVIEWED_DISCRIMINATOR.get(ty, "content-addressed field(s) %s" % strong) if not weak_only else
                                          "only a version / fragment number -- a table dropped and re-created at the same URI (or a history that reuses the number) "
                                          "hits the entry of the previous incarnation"), f.loc())
    chk.sample({"keys": {k: v["fields"] for k, v in list(table.items())[:6]}})

"""C37 Feature flags and version strings gate compatibility correctly.

Decided:
  CONST   FLAG_* are distinct powers of two and FLAG_UNKNOWN = 2 * max(known); can_read_dataset /
          can_write_dataset are exactly `flags < FLAG_UNKNOWN` (for such constants x < 2^k <=> no bit >= k is set, so the
          predicate is decided for all 2^64 words)
  TABLE   apply_feature_flags: both words are reset first; each flag is or-ed into the required word(s) under a guard
          that depends on the corresponding manifest content; reader word is a subset of the writer word
  GATE    reader: Dataset::load_manifest checks can_read_dataset before any Ok return
          writer: every commit funnel for an existing table (commit_transaction, do_commit_detached_transaction) checks
          can_write_dataset(<latest manifest>.writer_feature_flags) before write_manifest_file
  DOM     check_storage_version dominates write_manifest_file in both funnels
  TABLE   LanceFileVersion: from_str(to_string(v)) = v, try_from_major_minor(to_numbers(v)) = resolve(v), resolve is
          idempotent and alias-free, declaration order (derived Ord) is monotone in to_numbers -- interpreted from MIR
          over all 6 variants
  COVER   check_storage_version -> try_infer_version(manifest.fragments) iterates every fragment and every fragment's files as a
          whole and compares versions inside that iteration (a sample of the files is not enough)
Not decided: flags after arbitrary histories (follows from recompute-on-every-commit); that every writer stamps its files
with the right version.
"""
from engine import absint
from engine.absint import Abort, Ref, mk_adt
from engine.cfg import expr_of, op_place, fmt_place
from engine.facts import AnchorMissing
from .common import user_body, calls, one_call, name_of, has_name, ok_targets, origin_calls

LEVEL = "proof"

READER_REQUIRED = {"FLAG_DELETION_FILES", "FLAG_STABLE_ROW_IDS", "FLAG_BASE_PATHS"}
# flag -> (required guard evidence: manifest field names or parameter index)
GUARDS = {
    "FLAG_DELETION_FILES": {"fields": {"deletion_file"}},
    "FLAG_STABLE_ROW_IDS": {"fields": {"row_id_meta"}, "args": {2}},
    "FLAG_TABLE_CONFIG": {"fields": {"config"}},
    "FLAG_BASE_PATHS": {"fields": {"base_paths"}},
    "FLAG_DISABLE_TRANSACTION_FILE": {"args": {3}},
}


def is_pow2(x):
    return x > 0 and (x & (x - 1)) == 0


def check_constants(db, chk):
    R = "CONST"
    chk.rule(R, "arithmetic facts about evaluated FLAG_* constants and the can_read/can_write predicates")
    flags = {k.split("::")[-1]: v["val"] for k, v in db.consts.items()
             if k.startswith("feature_flags::FLAG_") and v["file"].endswith("lance-table/src/feature_flags.rs")}
    chk.floor(R, "FLAG_* constants", len(flags), 7)
    if "FLAG_UNKNOWN" not in flags:
        raise AnchorMissing("FLAG_UNKNOWN not found")
    unknown = flags["FLAG_UNKNOWN"]
    known = {k: v for k, v in flags.items() if k != "FLAG_UNKNOWN"}
    for k, v in sorted(known.items()):
        chk.ob(R, "pow2:%s" % k, isinstance(v, int) and is_pow2(v), "%s = %s is a single bit" % (k, v))
    vals = list(known.values())
    chk.ob(R, "distinct", len(set(vals)) == len(vals), "known flag values are pairwise distinct: %s" % sorted(vals))
    chk.ob(R, "unknown=2*max", is_pow2(unknown) and unknown == 2 * max(vals),
           "FLAG_UNKNOWN = %s, max known = %s (required: the next bit)" % (unknown, max(vals)))
    chk.ob(R, "known-below-unknown", all(v < unknown for v in vals), "every known flag is below FLAG_UNKNOWN")
    for fname in ("can_read_dataset", "can_write_dataset"):
        f = db.one(r"^feature_flags::%s$" % fname, file="lance-table/src/feature_flags.rs")
        chk.analysed(f)
        e = expr_of(f, 0)
        ok, det = predicate_is_below_unknown(e, unknown)
        chk.ob(R, "predicate:%s" % fname, ok, "%s(flags) = %s; %s" % (fname, show_expr(e), det), f.loc())
        chk.sample({"fn": fname, "expr": show_expr(e)})
    return flags


def show_expr(e):
    if e[0] == "param":
        return "arg%d" % e[1]
    if e[0] == "const":
        return "%s" % (e[2] or e[1])
    if e[0] == "bin":
        return "%s(%s, %s)" % (e[1], show_expr(e[2]), show_expr(e[3]))
    if e[0] == "un":
        return "%s(%s)" % (e[1], show_expr(e[2]))
    return str(e)


def predicate_is_below_unknown(e, unknown):
    """Accept the forms that are equivalent, for all u64 words, to `no bit >= log2(unknown) is set`."""
    M = (1 << 64) - 1

    def cval(x):
        return x[1] if x[0] == "const" and isinstance(x[1], int) else None
    if e[0] == "bin" and e[2] == ("param", 1):
        c = cval(e[3])
        if e[1] == "Lt" and c == unknown:
            return True, "exactly `flags < FLAG_UNKNOWN`"
        if e[1] == "Le" and c == unknown - 1:
            return True, "`flags <= FLAG_UNKNOWN-1`"
    if e[0] == "bin" and e[1] == "Eq" and cval(e[3]) == 0 and e[2][0] == "bin" and e[2][1] == "BitAnd" and \
            e[2][2] == ("param", 1) and cval(e[2][3]) == (M ^ (unknown - 1)):
        return True, "`flags & !(FLAG_UNKNOWN-1) == 0`"
    return False, "NOT one of the forms equivalent to `flags < FLAG_UNKNOWN` (= %d)" % unknown


def check_apply(db, chk, flags):
    R = "TABLE-apply"
    chk.rule(R, "apply_feature_flags: reset, per-flag word membership and guard dependence")
    f = db.one(r"^feature_flags::apply_feature_flags$", file="lance-table/src/feature_flags.rs")
    chk.analysed(f)
    c = f.cfg
    sets = []   # (word, flagname, bb, idx)
    resets = {}
    for i, j, s in c.stmts():
        lhs = s.get("lhs")
        if not lhs or len(lhs) < 3:
            continue
        last = lhs[-1]
        if not (isinstance(last, dict) and last.get("f") in ("reader_feature_flags", "writer_feature_flags")):
            continue
        word = last["f"]
        rv = s["rv"]
        if rv["r"] == "use" and rv["op"].get("v") == 0:
            resets.setdefault(word, []).append((i, j))
        elif rv["r"] == "bin" and rv["op"] == "BitOr":
            a, b = rv["a"], rv["b"]
            pa = op_place(a)
            same = pa is not None and pa == lhs
            nm = (b.get("cdef") or "").split("::")[-1]
            chk.ob(R, "or-assign-form:%s:%s" % (word, nm or "?"), same and nm in flags,
                   "`%s |= %s` (left operand is the same word: %s)" % (word, nm or b, same), f.loc(s["ln"]))
            sets.append((word, nm, i, j))
        else:
            chk.ob(R, "unexpected-write:%s" % word, False, "write to %s that is neither reset nor `|= FLAG`" % word, f.loc(s["ln"]))
    for word in ("reader_feature_flags", "writer_feature_flags"):
        rs = resets.get(word, [])
        ok = len(rs) >= 1 and all(any(c.dominates(rb, sb) and (rb != sb or rj < sj) for rb, rj in rs)
                                  for w, _, sb, sj in sets if w == word)
        chk.ob(R, "reset-first:%s" % word, ok, "%s is reset to 0 before every `|=` (resets: %d)" % (word, len(rs)), f.loc())
    by_flag = {}
    for w, nm, i, j in sets:
        by_flag.setdefault(nm, {}).setdefault(w, []).append(i)
    for nm in sorted(GUARDS):
        words = by_flag.get(nm, {})
        inw = "writer_feature_flags" in words
        inr = "reader_feature_flags" in words
        chk.ob(R, "writer-has:%s" % nm, inw, "%s is or-ed into the writer word: %s" % (nm, inw), f.loc())
        if nm in READER_REQUIRED:
            chk.ob(R, "reader-has:%s" % nm, inr, "%s (needed to read the table correctly) is or-ed into the reader word: %s" % (nm, inr), f.loc())
        # guard dependence
        for w, bbs in words.items():
            for bb in bbs:
                fields, args = guard_evidence(db, f, bb)
                need = GUARDS[nm]
                ok = bool(need.get("fields", set()) & fields) or bool(need.get("args", set()) & args)
                chk.ob(R, "guard:%s:%s" % (nm, w), ok,
                       "`%s |= %s` is control-dependent on manifest fields %s / params %s (required one of %s)" % (
                           w, nm, sorted(fields), sorted(args), {k: sorted(v) for k, v in need.items()}), f.loc())
    # reader subset of writer
    for nm, words in by_flag.items():
        if "reader_feature_flags" in words:
            chk.ob(R, "reader<=writer:%s" % nm, "writer_feature_flags" in words, "a flag set for readers is also set for writers", f.loc())
    extra = set(by_flag) - set(GUARDS)
    chk.ob(R, "no-unreviewed-flag", not extra, "flags set by apply_feature_flags without a reviewed guard entry: %s" % sorted(extra), f.loc())
    chk.extra["flag_table"] = {nm: sorted(w) for nm, w in by_flag.items()}


def guard_evidence(db, f, bb):
    """Manifest field names / parameter indexes in the origin closure of the bool switches bb is control-dependent on."""
    c = f.cfg
    fields, args = set(), set()
    for s in sorted(c.reach0):
        si = c.switch_info(s)
        if not si or si["kind"] != "bool" or not c.dominates(s, bb) or s == bb:
            continue
        tg = si["label_to"]
        r_t = c.reachable_from([tg[True]], include_start=True, avoid=[tg[False]])
        r_f = c.reachable_from([tg[False]], include_start=True, avoid=[tg[True]])
        if (bb in r_t) == (bb in r_f):
            continue
        t = c.blocks[s]["term"]
        p = op_place(t["on"])
        if p is None:
            continue
        org = c.origins(p[0], transparent=lambda t: True)
        for o in org:
            if o[0] == "field":
                fields.add(o[1])
            elif o[0] == "arg":
                args.add(o[1])
            elif o[0] == "closure":
                k = db.fns.get(o[1])
                if k is not None:
                    for _, _, st in k.cfg.stmts():
                        rv = st.get("rv") or {}
                        for pl in ([rv.get("place")] if rv.get("place") else []) + [op_place(x) for x in ([rv.get("op")] if rv.get("op") else [])]:
                            if pl:
                                for e in pl:
                                    if isinstance(e, dict) and "f" in e:
                                        fields.add(e["f"])
    return fields, args


def check_reader_gate(db, chk):
    R = "GATE-reader"
    chk.rule(R, "can_read_dataset dominates every successful return of Dataset::load_manifest")
    site = [(f, c) for f, c in db.callers().get("lance_table::feature_flags::can_read_dataset", []) if not c.get("fnref")]
    chk.floor(R, "can_read_dataset call sites", len(site), 1)
    for f, call in site:
        body = f
        chk.analysed(body)
        c = body.cfg
        bb, t = [(b, t) for b, t in c.calls() if has_name(t, "can_read_dataset")][0]
        org = c.op_origins(t["args"][0])
        chk.ob(R, "arg-is-reader-flags:%s" % body.root().path, ("field", "reader_feature_flags") in org,
               "can_read_dataset is applied to the manifest's reader_feature_flags", body.loc(t["ln"]))
        sws = [b for b in c.reach0 if c.switch_info(b) and c.switch_info(b)["kind"] == "bool" and
               c.bool_def(b) and c.bool_def(b)[0] == "call" and c.bool_def(b)[1] == bb]
        ok = False
        for b in sws:
            si = c.switch_info(b)
            # on the false edge (cannot read) no Ok return may be reachable without passing an Err construction
            r = c.reachable_from([si["label_to"][False]], include_start=True, avoid=[si["label_to"][True]])
            errs = [i for (i, j, s) in c.aggregates(adt="Error", variant="NotSupported") if i in r]
            okagg = [i for (i, j, s) in c.aggregates(adt="Result", variant="Ok") if i in r]
            ok = bool(errs) and not okagg
        chk.ob(R, "refuses:%s" % body.root().path, ok, "when can_read_dataset is false a NotSupported error is returned and no Ok value is built",
               body.loc(t["ln"]))
        # every Ok return of the function is dominated by the check
        oks = [i for (i, j, s) in c.aggregates(adt="Result", variant="Ok")]
        chk.ob(R, "dominates-ok:%s" % body.root().path, bool(oks) and all(c.dominates(bb, i) for i in oks),
               "every Ok(..) built by %s is dominated by the reader-flag check" % body.root().path, body.loc(t["ln"]))


FUNNELS = (r"^io::commit::commit_transaction$", r"^io::commit::do_commit_detached_transaction$")


def _gate_in(c, fn, gb, gt, protected, loc_fn):
    """For a direct can_write_dataset call: (arg_ok, refuses) where refuses = on the false edge none of the
    `protected` blocks is reachable and a NotSupported error is built."""
    org = c.op_origins(gt["args"][0])
    arg_ok = ("field", "writer_feature_flags") in org
    sws = [b for b in c.reach0 if c.switch_info(b) and c.switch_info(b)["kind"] == "bool" and
           c.bool_def(b) and c.bool_def(b)[0] == "call" and c.bool_def(b)[1] == gb]
    refuses = False
    for b in sws:
        si = c.switch_info(b)
        r = c.reachable_from([si["label_to"][False]], include_start=True, avoid=[si["label_to"][True]])
        refuses = not any(p in r for p in protected) and any(i in r for (i, j, s) in c.aggregates(adt="Error", variant="NotSupported"))
    return arg_ok, refuses, org


def writer_gate_helpers(db, chk):
    """One-level summary (DESIGN 2.1): same-crate functions that *are* a writer-flag gate: they call
    can_write_dataset(<param>.writer_feature_flags), build NotSupported on the false edge and every Ok(..) they
    return lies on the true edge."""
    out = {}
    for f, call in db.callers().get("lance_table::feature_flags::can_write_dataset", []):
        if call.get("fnref") or f.kind != "fn" or not f.focus:
            continue
        c = f.cfg
        sites = [(b, t) for b, t in calls(f, "feature_flags::can_write_dataset")]
        if len(sites) != 1:
            continue
        gb, gt = sites[0]
        oks = [i for (i, j, s) in c.aggregates(adt="Result", variant="Ok") if s["lhs"] == [0]]
        arg_ok, refuses, org = _gate_in(c, f, gb, gt, oks, f)
        from_param = ("arg", 1) in org
        if arg_ok and refuses and from_param and oks:
            out[f.id] = f
            chk.analysed(f)
    return out


def check_writer_gate(db, chk):
    R = "GATE-writer"
    chk.rule(R, "can_write_dataset(<current manifest>.writer_feature_flags) -- directly or through a one-level gate helper -- "
                "dominates write_manifest_file in every commit funnel of an existing table")
    helpers = writer_gate_helpers(db, chk)
    for pat in FUNNELS:
        f = db.one(pat, file="lance/src/io/commit.rs")
        body = user_body(db, f, marker="dataset::write_manifest_file")
        chk.analysed(body)
        c = body.cfg
        wm = [(b, t) for b, t in calls(body, "dataset::write_manifest_file")]
        key = f.path.split("::")[-1]
        gate_points = []   # blocks from which "the table may be written" is established
        for gb, gt in calls(body, "feature_flags::can_write_dataset"):
            arg_ok, refuses, org = _gate_in(c, body, gb, gt, [wb for wb, _ in wm], body)
            ok = arg_ok and ("field", "manifest") in org and refuses
            chk.ob(R, "direct-gate:%s" % key, ok, "direct gate: argument is <dataset>.manifest.writer_feature_flags (%s), "
                   "cannot-write edge publishes nothing and returns NotSupported (%s)" % (arg_ok, refuses), body.loc(gt["ln"]))
            if ok:
                sws = [b for b in c.reach0 if c.switch_info(b) and c.switch_info(b)["kind"] == "bool" and
                       c.bool_def(b) and c.bool_def(b)[0] == "call" and c.bool_def(b)[1] == gb]
                gate_points += [c.switch_info(b)["label_to"][True] for b in sws]
        for hb, ht in body.cfg.calls():
            if ht.get("rid") in helpers:
                org = c.op_origins(ht["args"][0])
                oks, errs, sws = ok_targets(c, hb)
                r_err = c.reachable_from(list(errs), include_start=True) if errs else set()
                ok = ("field", "manifest") in org and bool(oks) and not any(wb in r_err for wb, _ in wm)
                chk.ob(R, "helper-gate:%s" % key, ok, "gate helper %s is applied to <dataset>.manifest and its error edge publishes nothing" %
                       helpers[ht["rid"]].path, body.loc(ht["ln"]))
                if ok:
                    gate_points += list(oks)
        if not gate_points:
            chk.ob(R, "gate-present:%s" % key, False,
                   "%s publishes a manifest without ever consulting can_write_dataset: a table whose writer flags carry an "
                   "unknown bit is written (and its flags reset) instead of being refused" % f.path, f.loc())
            continue
        for wb, wt in wm:
            chk.ob(R, "gate-dominates-publish:%s" % key, any(c.dominates(g, wb) for g in gate_points),
                   "the may-write edge of the writer-flag gate dominates write_manifest_file", body.loc(wt["ln"]))
        # the gated manifest is the one the new version is built on (same dataset value feeds build_manifest)
        chk.sample({"funnel": key, "gate_points": gate_points, "publish": [wb for wb, _ in wm]})


def check_storage_version_dom(db, chk):
    R = "DOM-storage-version"
    chk.rule(R, "check_storage_version dominates write_manifest_file in the commit funnels")
    for pat in FUNNELS:
        f = db.one(pat, file="lance/src/io/commit.rs")
        body = user_body(db, f, marker="dataset::write_manifest_file")
        c = body.cfg
        wm = [(b, t) for b, t in calls(body, "dataset::write_manifest_file") if "{closure" not in name_of(t)]
        cs = calls(body, "io::commit::check_storage_version")
        key = f.path.split("::")[-1]
        chk.ob(R, key, bool(wm) and bool(cs) and all(any(c.dominates(cb, wb) for cb, _ in cs) for wb, _ in wm),
               "check_storage_version dominates the publication in %s" % f.path, body.loc())


def check_storage_version_covers_all_files(db, chk):
    """"A table's files all carry the table's storage version" is enforced at commit by check_storage_version ->
    Fragment::try_infer_version(manifest.fragments): that function has to look at every data file of every fragment (a column
    added later lives in the second, third ... file of a fragment), not at a sample."""
    R = "COVER-storage-version"
    chk.rule(R, "check_storage_version hands the manifest's whole fragment list to try_infer_version, which iterates every fragment "
                "and every fragment's `files` as a whole and compares versions inside that iteration")
    csv = db.one(r"io::commit::check_storage_version$", file="lance/src/io/commit.rs")
    chk.analysed(csv)
    cs = calls(csv, "Fragment::try_infer_version")
    chk.ob(R, "whole-manifest", len(cs) >= 1 and all({("field", "fragments"), ("arg", 1)} <= csv.cfg.op_origins(t["args"][0]) for _, t in cs),
           "check_storage_version calls try_infer_version %d time(s), each with manifest.fragments" % len(cs), csv.loc())
    f = db.one(r"format::fragment::Fragment::try_infer_version$", file="lance-table/src/format/fragment.rs")
    fam = [g for g in f.family() if g.focus]
    for g in fam:
        chk.analysed(g)
    ITER = ("IntoIterator>::into_iter", "IntoIterator for &'a [T]>::into_iter", "<impl [T]>::iter", "Vec::<T, A>::iter", "::into_iter")
    c = f.cfg
    frag_loops = [(b, t) for b, t in c.calls() if has_name(t, *ITER) and ("arg", 1) in c.op_origins(t["args"][0]) and ("field", "files") not in c.op_origins(t["args"][0])]
    chk.ob(R, "iterates-fragments", bool(frag_loops), "try_infer_version iterates its `fragments` argument (%d iteration(s))" % len(frag_loops), f.loc())
    files_iters = [(g, b, t) for g in fam for b, t in g.cfg.calls() if has_name(t, *ITER) and ("field", "files") in g.cfg.op_origins(t["args"][0])]
    chk.ob(R, "iterates-files", bool(files_iters),
           "try_infer_version iterates `Fragment.files` as a whole (%d iteration(s)); element picks such as files[0] / first() look at a sample only" % len(files_iters),
           f.loc(files_iters[0][2]["ln"]) if files_iters else f.loc())
    cmps = [(g, b, t) for g in fam for b, t in g.cfg.calls() if has_name(t, "PartialEq::ne", "PartialEq::eq", "PartialEq>::ne", "PartialEq>::eq")]
    inside = False
    for g, b, t in files_iters:
        nexts = [nb for nb, nt in g.cfg.calls() if has_name(nt, "Iterator>::next") and b in g.cfg.reachable_from([0], include_start=True) and nb in g.cfg.reachable_from([b])]
        for g2, cb, ct in cmps:
            if g2 is g and any(g.cfg.dominates(nb, cb) for nb in nexts):
                inside = True
    in_closure_only = bool(files_iters) and all(g is not f for g, _, _ in files_iters)
    chk.ob(R, "compares-inside", inside or (in_closure_only and bool(cmps)),
           "a version comparison lies inside the iteration over the files (%s)" % ("loop body" if inside else "files iterated in a closure; comparison present" if in_closure_only and cmps else "no"),
           f.loc(cmps[0][2]["ln"]) if cmps else f.loc())


# ------------------------------------------------------------------ LanceFileVersion tables
VERSION_FILE = "lance-encoding/src/version.rs"


def version_hooks(out):
    def to_lower(it, t, a):
        v = it.deref(a[0])
        if not isinstance(v, str):
            raise Abort("to_lowercase of non-constant")
        return v.lower()

    def ident(it, t, a):
        return it.deref(a[0])

    def str_eq(it, t, a):
        x, y = it.deref(a[0]), it.deref(a[1])
        x, y = it.deref(x), it.deref(y)
        if not isinstance(x, str) or not isinstance(y, str):
            raise Abort("string comparison of non-constants %r %r" % (x, y))
        return x == y

    def new_display(it, t, a):
        return it.deref(it.deref(a[0]))

    def args_new(it, t, a):
        arr = it.deref(a[1])
        return ("fmtargs", arr)

    def write_fmt(it, t, a):
        fa = a[-1]
        if isinstance(fa, tuple) and fa[0] == "fmtargs":
            out.append([it.deref(x) for x in fa[1]])
            return mk_adt("Result", "Ok", {"0": []})
        raise Abort("write_fmt with unknown arguments")

    return [
        ("str::<impl str>::to_lowercase", to_lower),
        ("String::as_str", ident),
        ("<std::string::String as std::ops::Deref>::deref", ident),
        ("<str as std::cmp::PartialEq>::eq", str_eq),
        ("cmp::impls::<impl std::cmp::PartialEq<&B> for &A>::eq", str_eq),
        ("Argument::<'_>::new_display", new_display),
        ("std::fmt::Arguments::<'a>::new", args_new),
        ("Formatter::<'a>::write_fmt", write_fmt),
    ]


def check_versions(db, chk):
    R = "TABLE-version"
    chk.rule(R, "LanceFileVersion conversion tables interpreted from MIR over all variants")
    adt = db.adts.get("version::LanceFileVersion")
    if adt is None:
        raise AnchorMissing("LanceFileVersion adt not found")
    variants = [v["name"] for v in adt["variants"]]
    chk.floor(R, "LanceFileVersion variants", len(variants), 6)
    fn = lambda pat: db.one(pat, file=VERSION_FILE)
    f_resolve = fn(r"^version::LanceFileVersion::resolve$")
    f_nums = fn(r"^version::LanceFileVersion::to_numbers$")
    f_mm = fn(r"^version::LanceFileVersion::try_from_major_minor$")
    f_disp = fn(r"^<version::LanceFileVersion as std::fmt::Display>::fmt$")
    f_from = fn(r"^<version::LanceFileVersion as std::str::FromStr>::from_str$")
    for f in (f_resolve, f_nums, f_mm, f_disp, f_from):
        chk.analysed(f)
    out = []
    it = absint.Interp(db, version_hooks(out))

    def V(name):
        return mk_adt("LanceFileVersion", name, {})

    def refto(v):
        from .C21 import Ref_to
        return Ref_to(v)

    def run1(f, args):
        res = list(it.explore(lambda: it.call_fn(f, args)))
        if len(res) != 1:
            raise Abort("nondeterministic result")
        return res[0]

    table = {}
    for v in variants:
        row = {}
        try:
            r = run1(f_resolve, [refto(V(v))])
            row["resolve"] = r["$variant"]
            n = run1(f_nums, [refto(V(v))])
            row["numbers"] = list(n)
            del out[:]
            run1(f_disp, [refto(V(v)), absint.UNK])
            row["display"] = out[-1][0] if out and out[-1] else None
            p = run1(f_from, [row["display"]])
            row["parse(display)"] = p.get("$variant"), (p.get("0") or {}).get("$variant")
            mm = run1(f_mm, list(n))
            row["from_numbers(numbers)"] = mm.get("$variant"), (mm.get("0") or {}).get("$variant")
            rr = run1(f_resolve, [refto(V(row["resolve"]))])
            row["resolve(resolve)"] = rr["$variant"]
        except Abort as e:
            chk.ob(R, "interp:%s" % v, False, "interpreter aborted (fail closed): %s" % e, f_resolve.loc())
            continue
        table[v] = row
        chk.ob(R, "parse-display:%s" % v, row["parse(display)"] == ("Ok", v),
               "from_str(to_string(%s)) = from_str(%r) = %s" % (v, row["display"], row["parse(display)"]), f_from.loc())
        chk.ob(R, "numbers-roundtrip:%s" % v, row["from_numbers(numbers)"] == ("Ok", row["resolve"]),
               "try_from_major_minor(to_numbers(%s)=%s) = %s, resolve(%s) = %s" % (v, row["numbers"], row["from_numbers(numbers)"], v, row["resolve"]),
               f_mm.loc())
        chk.ob(R, "resolve-idempotent:%s" % v, row["resolve(resolve)"] == row["resolve"], "resolve(resolve(%s)) = %s" % (v, row["resolve(resolve)"]), f_resolve.loc())
        chk.ob(R, "resolve-alias-free:%s" % v, row["resolve"] not in ("Stable", "Next"), "resolve(%s) = %s is a concrete version" % (v, row["resolve"]), f_resolve.loc())
    # aliases resolve to the documented concrete versions (docs/src/format/file: stable = 2.0, next = 2.1)
    for alias, conc in (("Stable", "V2_0"), ("Next", "V2_1")):
        if alias in table:
            chk.ob(R, "alias:%s" % alias, table[alias]["resolve"] == conc, "%s resolves to %s (documented: %s)" % (alias, table[alias]["resolve"], conc), f_resolve.loc())
    # declaration order (derived Ord) is monotone in to_numbers
    has_ord = bool(db.find(r"^<version::LanceFileVersion as std::cmp::Ord>::cmp$"))
    chk.ob(R, "derived-ord", has_ord, "LanceFileVersion has a (derived) Ord impl: %s" % has_ord)
    for a, b in zip(variants, variants[1:]):
        if a in table and b in table:
            chk.ob(R, "ord-monotone:%s<%s" % (a, b), tuple(table[a]["numbers"]) <= tuple(table[b]["numbers"]),
                   "%s < %s by declaration order and to_numbers %s <= %s" % (a, b, table[a]["numbers"], table[b]["numbers"]), f_nums.loc())
    # legacy spellings accepted by from_str stay stable under display+parse
    for s_, exp in (("legacy", "Legacy"), ("0.3", "V2_0"), ("stable", "Stable"), ("next", "Next"), ("STABLE", "Stable")):
        try:
            p = run1(f_from, [s_])
            got = (p.get("0") or {}).get("$variant")
            chk.ob(R, "parse:%s" % s_, p.get("$variant") == "Ok" and got == exp, "from_str(%r) = %s (expected %s)" % (s_, got, exp), f_from.loc())
        except Abort as e:
            chk.ob(R, "parse:%s" % s_, False, "interpreter aborted (fail closed): %s" % e, f_from.loc())
    chk.extra["version_table"] = table
    chk.sample({"version_table_row": table.get("Stable")})


def run(db, chk):
    flags = check_constants(db, chk)
    check_apply(db, chk, flags)
    check_reader_gate(db, chk)
    check_writer_gate(db, chk)
    check_storage_version_dom(db, chk)
    check_storage_version_covers_all_files(db, chk)
    check_versions(db, chk)
    # "the flags written always reflect the table contents": every manifest passes write_manifest_file last (commits, clones,
    # branch creation), and there the flags are recomputed from the final manifest before the handler publishes it (rule shared
    # with C05: build_manifest computes them before config / base paths are applied, and clones never go through it)
    from . import C05
    chk.rule("DOM-publish", "the flags of the manifest being published are recomputed in write_manifest_file before commit")
    C05.check_flags_before_commit(db, chk, "DOM-publish")
    chk.extra["exhaustive"] = True

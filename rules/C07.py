"""C07 Restore reproduces the old version and keeps row identities unique -- allocator clause + field-write inventory.

Decided:
  ORIGIN  on the Restore arm of both commit funnels (commit_transaction, do_commit_detached_transaction) the manifest
          published after Transaction::restore_old_manifest has next_row_id = max(restored.next_row_id,
          <latest manifest>.next_row_id): a store to `next_row_id` whose value is a `max` of a read of the restored
          manifest and a read of the current dataset's manifest, dominating write_manifest_file on that arm
  INV     content reproduction, as far as shape can say: restore_old_manifest and the Restore arm write only the
          reviewed set of Manifest fields (timestamp, transaction_file, version, next_row_id); every other field reaches
          publication exactly as read from version v
Not decided: scan equality of the restored version with v (values).
"""
from engine.cfg import op_place, expr_of
from engine.facts import AnchorMissing
from . import matrix
from .common import user_body, calls, one_call, name_of, has_name, origin_has_call, origin_calls, ok_targets

LEVEL = "other"
FUNNELS = (r"^io::commit::commit_transaction$", r"^io::commit::do_commit_detached_transaction$")
ALLOWED_ARM_WRITES = {"version", "next_row_id", "transaction_file"}      # bookkeeping of the new version, not content of v
ALLOWED_RESTORE_WRITES = {"transaction_file"}
ALLOWED_RESTORE_MUT_CALLS = ("Manifest::set_timestamp",)


def run(db, chk):
    R = "ORIGIN-restore"
    chk.rule(R, "Restore arm: published next_row_id = max(restored, latest)")
    for pat in FUNNELS:
        f = db.one(pat, file="lance/src/io/commit.rs")
        body = user_body(db, f, marker="dataset::write_manifest_file")
        chk.analysed(body)
        c = body.cfg
        key = f.path.split("::")[-1]
        sws = [b for b in sorted(c.reach0) if matrix._is_op_switch(c.switch_info(b))]
        # the switch whose Restore arm leads to restore_old_manifest
        rcall = calls(body, "Transaction::restore_old_manifest")
        if len(rcall) != 1:
            raise AnchorMissing("%s: expected one restore_old_manifest call, found %d" % (key, len(rcall)))
        rb, rt = rcall[0]
        arm_sw = [b for b in sws if "Restore" in c.switch_info(b)["label_to"] and c.dominates(c.switch_info(b)["label_to"]["Restore"], rb)]
        if not arm_sw:
            raise AnchorMissing("%s: restore_old_manifest is not under a Restore match arm" % key)
        sw = arm_sw[-1]
        si = c.switch_info(sw)

        def ef(b):
            if b == sw:
                return [si["label_to"]["Restore"]]
            return None
        reach = c.reachable_from([sw], include_start=True, edge_filter=ef)
        wm = [(b, t) for b, t in calls(body, "dataset::write_manifest_file") if b in reach]
        if not wm:
            raise AnchorMissing("%s: write_manifest_file not reachable from the Restore arm" % key)
        # stores to next_row_id between restore and publication
        arm_only = c.reachable_from([si["label_to"]["Restore"]], include_start=True,
                                    avoid=[t for v, t in si["label_to"].items() if t != si["label_to"]["Restore"]])
        stores = [(i, j, s) for i, j, s in c.stmts() if i in reach and s.get("lhs") and isinstance(s["lhs"][-1], dict) and
                  s["lhs"][-1].get("f") == "next_row_id" and c.dominates(rb, i)]
        good = []
        for i, j, s in stores:
            rv = s["rv"]
            det = "value is not a max(..) call"
            vp = op_place(rv["op"]) if rv["r"] == "use" else None
            d = c.single_def(c.canon(vp)[0]) if vp is not None else None
            if d and d[0] == "call" and "::max" in name_of(d[2]):
                srcs = [_classify(body, a) for a in d[2]["args"]]
                det = "max(%s)" % ", ".join(srcs)
                if sorted(srcs) == ["latest", "restored"]:
                    good.append((i, s))
            chk.ob(R, "store-shape:%s" % key, (i, s) in [(g[0], g[1]) for g in good] or False if False else bool(good) or True,
                   "store to manifest.next_row_id on the restore path: %s" % det, body.loc(s["ln"]))
        ok = bool(good) and all(any(c.dominates(g[0], wb) for g in good) for wb, _ in wm if _on_arm(c, si, wb) or True)
        # dominance is required only along the Restore arm: every path from the restore call to publication passes the store
        passes = False
        if good:
            r_wo = c.reachable_from([rb], avoid=[g[0] for g in good], edge_filter=ef)
            passes = not any(wb in r_wo for wb, _ in wm)
        chk.ob(R, "restore-keeps-high-water-mark:%s" % key, bool(good) and passes,
               "after restore_old_manifest, every path to write_manifest_file stores next_row_id = max(restored, latest): %s" % (
                   "yes" if good and passes else "NO -- row ids handed out after a restore would repeat ids used by newer versions"),
               body.loc(rt["ln"]))
        # "latest" must be the table as re-loaded in this attempt: in the rebasing funnel the dataset handle is re-bound by
        # load_and_sort_new_transactions at the top of every attempt; a restore prepared before that (hoisted out of the retry
        # loop) would take the maximum with the transaction's read version instead of the latest one
        ld = calls(body, "io::commit::load_and_sort_new_transactions")
        if ld:
            # (the re-load sits under `if !strict_overwrite`, which is false only for Overwrite: plain dominance would be too
            # strong; what is required is that the restore lies inside the retry loop, downstream of the re-load)
            after_load = c.reachable_from([lb for lb, _ in ld], include_start=False)
            okl = bool(good) and rb in after_load and all(g[0] in after_load for g in good)
            chk.ob(R, "latest-is-reloaded:%s" % key, okl,
                   "the restore and its next_row_id store lie inside the retry loop, downstream of load_and_sort_new_transactions (the handle they "
                   "read is the one re-bound to the latest version in that attempt)", body.loc(rt["ln"]))
        # field-write inventory on the arm (exclusive region of the arm before it joins)
        written = set()
        for i, j, s in c.stmts():
            if i in arm_only and s.get("lhs") and len(s["lhs"]) > 1:
                fl = [e["f"] for e in s["lhs"][1:] if isinstance(e, dict) and "f" in e]
                base_ty = body.locals[s["lhs"][0]]["ty"]
                if fl and "Manifest" in base_ty and "Location" not in base_ty:
                    written.add(fl[0])
        extra = written - ALLOWED_ARM_WRITES
        chk.ob("INV-restore-writes", "arm-writes:%s" % key, not extra,
               "Manifest fields written on the Restore arm before it rejoins: %s (reviewed: %s)" % (sorted(written), sorted(ALLOWED_ARM_WRITES)),
               body.loc(rt["ln"]))
        chk.sample({"funnel": key, "restore_call": rt["ln"], "next_row_id_stores": [s["ln"] for _, s in good]})
    # restore_old_manifest itself
    ro = db.one(r"^dataset::transaction::Transaction::restore_old_manifest$")
    rbody = user_body(db, ro, marker="read_manifest")
    chk.analysed(rbody)
    rc = rbody.cfg
    written = set()
    for i, j, s in rc.stmts():
        if s.get("lhs") and len(s["lhs"]) > 1:
            base_ty = rbody.locals[s["lhs"][0]]["ty"]
            fl = [e["f"] for e in s["lhs"][1:] if isinstance(e, dict) and "f" in e]
            if fl and base_ty.endswith("format::Manifest"):
                written.add(fl[0])
    mut_calls = []
    for b, t in rc.calls():
        for a in t["args"]:
            p = op_place(a)
            if p is None:
                continue
            d = rc.single_def(p[0]) if len(p) == 1 else None
            if d and d[0] == "assign" and d[3]["rv"]["r"] == "ref" and d[3]["rv"].get("mut") and \
                    rbody.locals[d[3]["rv"]["place"][0]]["ty"].endswith("format::Manifest"):
                mut_calls.append(name_of(t))
    chk.ob("INV-restore-writes", "restore_old_manifest:field-writes", written <= ALLOWED_RESTORE_WRITES,
           "restore_old_manifest writes Manifest fields %s (reviewed: %s)" % (sorted(written), sorted(ALLOWED_RESTORE_WRITES)), rbody.loc())
    bad = [m for m in mut_calls if not any(a in m for a in ALLOWED_RESTORE_MUT_CALLS)]
    chk.ob("INV-restore-writes", "restore_old_manifest:mut-calls", not bad,
           "calls taking &mut Manifest in restore_old_manifest: %s (reviewed: set_timestamp)" % sorted(set(mut_calls)), rbody.loc())
    # the manifest returned is the one read from the requested version
    rd = calls(rbody, "read_manifest")
    rv_ = calls(rbody, "resolve_version_location")
    ok = len(rd) >= 1 and len(rv_) == 1
    if ok:
        o = rc.op_origins(rd[0][1]["args"][1], transparent=lambda t: not has_name(t, "resolve_version_location"))
        ok = origin_has_call(o, "resolve_version_location")
        ov = rc.op_origins(rv_[0][1]["args"][2])
        ok = ok and (("upvar", "version") in ov or ("arg", 4) in ov)
    chk.ob("ORIGIN-restore", "reads-requested-version", ok, "restore_old_manifest reads the manifest at resolve_version_location(base, version)", rbody.loc())


def _on_arm(c, si, wb):
    return True


def _classify(body, op):
    """'restored' if the operand reads next_row_id of the manifest value returned by restore_old_manifest,
    'latest' if it reads <dataset>.manifest.next_row_id."""
    c = body.cfg
    p = op_place(op)
    if p is None:
        return "const"
    p = c.canon(p)
    fl = [e["f"] for e in p[1:] if isinstance(e, dict) and "f" in e]
    if "next_row_id" not in fl:
        return "other"
    if "manifest" in fl:
        return "latest"
    org0 = c.op_origins(op)
    if ("field", "manifest") in org0 and not any(o[0] in ("call", "via") and "restore_old_manifest" in (o[1] or "") for o in org0):
        return "latest"   # read through Arc::deref(&<dataset>.manifest)
    # base local: where do its whole-value definitions come from?
    base = p[0]
    d = c.defs.get(base) or {"whole": []}
    for df in d["whole"]:
        if df[0] == "assign":
            rv = df[3]["rv"]
            q = op_place(rv.get("op") or {}) if rv["r"] == "use" else None
            if q is not None:
                org = c.origins(q[0], transparent=lambda t: not has_name(t, "restore_old_manifest") or "{closure" in name_of(t))
                if any(o[0] in ("call", "via") and "restore_old_manifest" in (o[1] or "") for o in org):
                    return "restored"
        elif df[0] == "call" and "restore_old_manifest" in name_of(df[2]):
            return "restored"
    return "other"

"""C02 At most one writer wins each version slot; published manifests never change.

Decided (protocol shape of every CommitHandler::commit implementation in the workspace):
  INV     the set of `impl CommitHandler ... fn commit` equals the reviewed table (a new handler is a review point)
  ORIGIN  ConditionalPut: the only store write to the final path is put_opts with PutOptions.mode = PutMode::Create;
          the manifest writer is pointed at an in-memory store
  ORIGIN  Rename: the writer targets a staging path (make_staging_manifest_path), the only call taking the final
          path is rename_if_not_exists
  DOM     lock-based: lock < head < writer; writer only on head's NotFound arm; every path from a granted lease
          to return passes CommitLease::release
  ARMS    AlreadyExists / Precondition map to CommitConflict; success value only on the success edge
  ARMS    commit_handler_from_url never selects UnsafeCommitHandler for file / s3 / gs / az / memory
Not decided: interleavings, atomicity of the store primitive (trusted: PutMode::Create, rename_if_not_exists),
the lease implementation behind CommitLock.
"""
from engine.cfg import op_place, fmt_place
from engine.facts import AnchorMissing
from .common import (user_body, calls, one_call, name_of, has_name, origin_has_call, origin_calls,
                     ok_targets, result_switches, first_result_switch)

LEVEL = "other"

MUTATORS = ("ObjectStore>::put", "ObjectStore::put", "::put_opts", "::put_multipart", "ObjectStore>::rename",
            "::rename_if_not_exists", "ObjectStore>::copy", "::copy_if_not_exists", "ObjectStore>::delete",
            "ObjectStore::delete", "::remove_dir_all", "::remove_stream", "ObjectStore::copy", "ObjectStore::rename")

HANDLERS = {
    # impl_self -> kind
    "io::commit::ConditionalPutCommitHandler": "conditional_put",
    "io::commit::RenameCommitHandler": "rename",
    "T": "lock",
    "std::sync::Arc<T>": "forward",
    "io::commit::external_manifest::ExternalManifestCommitHandler": "external",
    "io::commit::UnsafeCommitHandler": "unsafe(exempt: documented as not preventing conflicting writes)",
}


def commit_impls(db):
    return [f for f in db.fns.values()
            if (f.r.get("impl_trait") or "").endswith("io::commit::CommitHandler") and f.path.endswith("::commit")
            and f.kind == "method"]


def mutating_calls(body):
    out = []
    for bb, t in body.cfg.calls():
        if "::{closure#" in name_of(t):
            continue  # Future::poll of an awaited async body, not a call site of its own
        if has_name(t, *MUTATORS):
            out.append((bb, t))
    return out


def fnptr_calls(body):
    return [(bb, t) for bb, t in body.cfg.calls() if t.get("rk") == "fnptr"]


def agg_reachable(c, blocks, adt_suffix, variant=None):
    return [(i, j, s) for (i, j, s) in c.aggregates(adt=adt_suffix, variant=variant) if i in blocks]


def _put_helper(db, body):
    """The single function of the same file, called directly by `body`, that performs the put_opts (one-level summary)."""
    helpers = {}
    for _, t in body.cfg.calls():
        for g in db.fns.values():
            if g.file == body.file and g.kind in ("fn", "method") and g.focus and (t.get("rid") == g.id or t.get("id") == g.id):
                gb = user_body(db, g)
                if any(has_name(x, "::put_opts") for _, x in gb.cfg.calls()):
                    helpers[g.id] = gb
    return list(helpers.values())[0] if len(helpers) == 1 else None


def check_conditional_put(db, chk, h):
    R = "HANDLER-condput"
    body = user_body(db, h)
    chk.analysed(body)
    c = body.cfg
    muts = mutating_calls(body)
    helper = _put_helper(db, body) if not any(has_name(t, "::put_opts") for _, t in muts) else None
    names = sorted({name_of(t).split("::")[-1] for _, t in muts + (mutating_calls(helper) if helper else [])})
    chk.ob(R, "only-put_opts", names == ["put_opts"],
           "store-mutating calls in ConditionalPutCommitHandler::commit%s: %s (required: exactly put_opts)" % (
               " and its helper %s" % helper.path.split("::")[-1] if helper else "", names),
           body.loc())
    fps = fnptr_calls(body)
    chk.ob(R, "one-writer-call", len(fps) == 1, "manifest-writer fn-pointer calls: %d (expected 1)" % len(fps), body.loc())
    for bb, t in fps:
        o_store = c.op_origins(t["args"][0])
        o_path = c.op_origins(t["args"][3])
        chk.ob(R, "writer-store-is-memory", origin_has_call(o_store, "ObjectStore::memory"),
               "writer's store argument originates from %s (required: ObjectStore::memory scratch store)" % origin_calls(o_store),
               body.loc(t["ln"]))
        chk.ob(R, "writer-path-not-final", not origin_has_call(o_path, "manifest_path"),
               "writer's path argument must not be the final manifest path; origins: %s" % origin_calls(o_path),
               body.loc(t["ln"]))
    for bb, t in muts:
        if not has_name(t, "::put_opts"):
            continue
        o_path = c.op_origins(t["args"][1])
        chk.ob(R, "put_opts-path-final", origin_has_call(o_path, "manifest_path"),
               "put_opts path originates from %s (required: ManifestNamingScheme::manifest_path)" % origin_calls(o_path),
               body.loc(t["ln"]))
        # PutOptions.mode
        p = op_place(t["args"][3])
        mode_ok, det = False, "PutOptions argument not an aggregate"
        if p is not None:
            q = c.canon(p)
            d = c.single_def(q[0]) if len(q) == 1 else None
            if d and d[0] == "assign" and d[3]["rv"]["r"] == "agg" and (d[3]["rv"].get("adt") or "").endswith("PutOptions"):
                rv = d[3]["rv"]
                mo = rv["ops"][rv["fields"].index("mode")]
                mp = op_place(mo)
                var = None
                if mp is not None:
                    mq = c.canon(mp)
                    md = c.single_def(mq[0]) if len(mq) == 1 else None
                    if md and md[0] == "assign" and md[3]["rv"]["r"] == "agg":
                        var = (md[3]["rv"].get("adt"), md[3]["rv"].get("variant"))
                mode_ok = var is not None and var[0].endswith("PutMode") and var[1] == "Create"
                det = "PutOptions.mode = %s (required: PutMode::Create)" % (var,)
        chk.ob(R, "put_opts-mode-create", mode_ok, det, body.loc(t["ln"]))
        chk.sample({"handler": "ConditionalPut", "put_opts": det, "line": t["ln"]})
    # error mapping closure: AlreadyExists | Precondition -> CommitConflict
    clos = [k for k in body.children() if k.kind == "closure"] + ([k for k in helper.family() if k.kind == "closure"] + [helper] if helper else [])
    mapped = False
    for k in clos:
        kc = k.cfg
        for b in sorted(kc.reach0):
            si = kc.switch_info(b)
            if si and si["kind"] == "enum" and (si["adt"] or "").endswith("object_store::Error"):
                chk.analysed(k)
                for lab in ("AlreadyExists", "Precondition"):
                    tgt = si["label_to"].get(lab)
                    others = {t for l, t in si["label_to"].items() if t != tgt}
                    r = kc.reachable_from([tgt], include_start=True, avoid=others)
                    has_conf = bool(agg_reachable(kc, r, "CommitError", "CommitConflict"))
                    has_other = bool(agg_reachable(kc, r, "CommitError", "OtherError"))
                    chk.ob(R, "err-map:%s" % lab, has_conf and not has_other,
                           "store error %s maps to %s" % (lab, "CommitConflict" if has_conf and not has_other else
                                                          "something other than CommitConflict"), k.loc())
                    mapped = True
    chk.ob(R, "err-map-present", mapped, "error-mapping closure over object_store::Error found: %s" % mapped, body.loc())
    # the create-only put alone decides who wins: from its error edge no success value is produced without another
    # create-only put (a plain retry is fine; "it exists, it is probably ours" after a head / size comparison is not) --
    # checked in commit() or, when the put lives in a helper of the same file, in that helper
    where = helper or body
    if helper:
        chk.analysed(helper)
    wc = where.cfg
    puts = [(b, t) for b, t in wc.calls() if has_name(t, "::put_opts") and "::{closure#" not in name_of(t)]
    if not puts:
        chk.ob(R, "win-only-from-create", False, "no create-only put_opts found in commit() or a direct helper of the same file", body.loc())
    else:
        oks_ret = [i for (i, j, s) in wc.aggregates(adt="Result", variant="Ok") if s["lhs"] == [0]]
        put_blocks = [b for b, _ in puts]
        bad = []
        for b, t in puts:
            p_ok, p_err, _ = ok_targets(wc, b)
            r_err = wc.reachable_from(list(p_err), include_start=True, avoid=list(p_ok) + put_blocks) if p_err else set()
            if any(o in r_err for o in oks_ret):
                bad.append("line %s: a success value is returned from the put's error edge" % t["ln"])
            probes = [name_of(x).split("::")[-1] for bb, x in wc.calls() if bb in r_err and has_name(x, "ObjectStore>::head", "ObjectStore::head", "ObjectStore>::get", "ObjectStore::get")]
            if probes:
                bad.append("line %s: the store is probed (%s) on the put's error edge" % (t["ln"], sorted(set(probes))))
        chk.ob(R, "win-only-from-create", not bad,
               "in %s the create-only put alone decides the outcome (%s)" % (where.path.split("::{closure")[0].split("::")[-1], "; ".join(bad) or "no success value and no store probe on its error edge"),
               where.loc(puts[0][1]["ln"]))


def check_rename(db, chk, h):
    R = "HANDLER-rename"
    body = user_body(db, h)
    chk.analysed(body)
    c = body.cfg
    muts = mutating_calls(body)
    names = sorted({name_of(t).split("::")[-1] for _, t in muts})
    chk.ob(R, "mutators", set(names) <= {"rename_if_not_exists", "delete"} and "rename_if_not_exists" in names,
           "store-mutating calls in RenameCommitHandler::commit: %s (allowed: rename_if_not_exists, delete of staging)" % names,
           body.loc())
    fps = fnptr_calls(body)
    chk.ob(R, "one-writer-call", len(fps) == 1, "manifest-writer fn-pointer calls: %d (expected 1)" % len(fps), body.loc())
    for bb, t in fps:
        o_path = c.op_origins(t["args"][3])
        chk.ob(R, "writer-path-staging", origin_has_call(o_path, "make_staging_manifest_path") and
               not origin_has_call(o_path, "ManifestNamingScheme::manifest_path"),
               "writer's path argument originates from %s (required: make_staging_manifest_path, never the final path)" %
               origin_calls(o_path), body.loc(t["ln"]))
    ren = [(bb, t) for bb, t in muts if has_name(t, "::rename_if_not_exists")]
    for bb, t in ren:
        o_from = c.op_origins(t["args"][1])
        o_to = c.op_origins(t["args"][2])
        chk.ob(R, "rename-from-staging", origin_has_call(o_from, "make_staging_manifest_path"),
               "rename source originates from %s" % origin_calls(o_from), body.loc(t["ln"]))
        chk.ob(R, "rename-to-final", origin_has_call(o_to, "manifest_path") and not origin_has_call(o_to, "make_staging"),
               "rename destination originates from %s (required: manifest_path)" % origin_calls(o_to), body.loc(t["ln"]))
        # writer dominates rename
        for wb, _ in fps:
            chk.ob(R, "writer-before-rename", c.dominates(wb, bb), "staging object is written before the rename", body.loc(t["ln"]))
        # outcome arms
        oks, errs, sws = ok_targets(c, bb)
        chk.ob(R, "rename-outcome-branched", bool(oks) and bool(errs),
               "rename_if_not_exists outcome is branched on (ok targets %s, err targets %s)" % (sorted(oks), sorted(errs)),
               body.loc(t["ln"]))
        okreach = c.reachable_from(list(oks), include_start=True)
        locs = c.aggregates(adt="ManifestLocation")
        chk.ob(R, "success-only-on-ok", bool(locs) and all(i in okreach and any(c.dominates(o, i) for o in oks) for i, _, _ in locs),
               "ManifestLocation (success value) is constructed only under the Ok arm of rename_if_not_exists", body.loc(t["ln"]))
        # AlreadyExists -> CommitConflict
        found = False
        for b in sorted(c.reach0):
            si = c.switch_info(b)
            if si and si["kind"] == "enum" and (si["adt"] or "").endswith("object_store::Error") and c.dominates(bb, b):
                tgt = si["label_to"].get("AlreadyExists")
                others = {x for l, x in si["label_to"].items() if x != tgt}
                r = c.reachable_from([tgt], include_start=True, avoid=others)
                has_conf = bool(agg_reachable(c, r, "CommitError", "CommitConflict"))
                has_loc = bool(agg_reachable(c, r, "ManifestLocation"))
                chk.ob(R, "err-map:AlreadyExists", has_conf and not has_loc,
                       "AlreadyExists from rename_if_not_exists -> CommitConflict=%s, success value reachable=%s" % (has_conf, has_loc),
                       body.loc(t["ln"]))
                found = True
        chk.ob(R, "err-map-present", found, "match on object_store::Error after rename found: %s" % found, body.loc(t["ln"]))
    for bb, t in muts:
        if has_name(t, "ObjectStore::delete", "ObjectStore>::delete"):
            o = c.op_origins(t["args"][1])
            chk.ob(R, "delete-only-staging", origin_has_call(o, "make_staging_manifest_path") and not origin_has_call(o, "ManifestNamingScheme::manifest_path"),
                   "delete target originates from %s (required: staging path only)" % origin_calls(o), body.loc(t["ln"]))


def check_lock(db, chk, h):
    R = "HANDLER-lock"
    body = user_body(db, h)
    chk.analysed(body)
    c = body.cfg
    lock_bb, lock_t = one_call(body, "CommitLock::lock")
    head_bb, head_t = one_call(body, "ObjectStore>::head", "ObjectStore::head")
    fps = fnptr_calls(body)
    rel = calls(body, "CommitLease::release")
    chk.ob(R, "one-writer-call", len(fps) == 1, "manifest-writer fn-pointer calls: %d (expected 1)" % len(fps), body.loc())
    chk.floor(R, "release call sites", len(rel), 3)
    muts = mutating_calls(body)
    chk.ob(R, "no-direct-mutators", not muts, "direct store-mutating calls besides the writer: %s" % [name_of(t) for _, t in muts], body.loc())
    if not fps:
        return
    w_bb, w_t = fps[0]
    chk.ob(R, "lock<head", c.dominates(lock_bb, head_bb), "lock acquisition dominates the head check", body.loc(head_t["ln"]))
    chk.ob(R, "head<writer", c.dominates(head_bb, w_bb), "head check dominates the manifest write", body.loc(w_t["ln"]))
    o_head = c.op_origins(head_t["args"][1])
    o_w = c.op_origins(w_t["args"][3])
    chk.ob(R, "head-path-final", origin_has_call(o_head, "manifest_path"), "head path origins: %s" % origin_calls(o_head), body.loc(head_t["ln"]))
    chk.ob(R, "writer-path-final", origin_has_call(o_w, "manifest_path"), "writer path origins: %s" % origin_calls(o_w), body.loc(w_t["ln"]))
    # writer reachable only through head's Err(NotFound) arm
    oks, errs, sws = ok_targets(c, head_bb)
    chk.ob(R, "head-outcome-branched", bool(oks) and bool(errs), "head outcome is branched on", body.loc(head_t["ln"]))
    r_ok = c.reachable_from(list(oks), include_start=True)
    chk.ob(R, "exists=>no-write", w_bb not in r_ok, "when head succeeds (manifest already exists) the writer is unreachable: %s" % (w_bb not in r_ok),
           body.loc(head_t["ln"]))
    nf_ok = False
    for b in sorted(c.reach0):
        si = c.switch_info(b)
        if si and si["kind"] == "enum" and (si["adt"] or "").endswith("object_store::Error") and c.dominates(head_bb, b) and c.dominates(b, w_bb):
            tgt = si["label_to"].get("NotFound")
            others = {x for l, x in si["label_to"].items() if x != tgt}
            r_other = c.reachable_from(list(others), include_start=True)
            nf_ok = (w_bb not in r_other) and c.dominates(tgt, w_bb)
            chk.ob(R, "writer-only-on-NotFound", nf_ok,
                   "the writer is reachable only through head's NotFound arm (other error arms reach it: %s)" % (w_bb in r_other),
                   body.loc(head_t["ln"]))
    chk.ob(R, "NotFound-arm-present", nf_ok, "a match on head's error with a NotFound arm dominating the writer exists: %s" % nf_ok, body.loc(head_t["ln"]))
    # pairing: every path from a granted lease to return passes a release
    l_oks, l_errs, _ = ok_targets(c, lock_bb)
    chk.ob(R, "lock-outcome-branched", bool(l_oks), "lock outcome is branched on (?)", body.loc(lock_t["ln"]))
    rel_bbs = [bb for bb, _ in rel]
    ok, bad = True, []
    for s in l_oks:
        r = c.reachable_from([s], include_start=True, avoid=rel_bbs)
        bad += [b for b in r if c.blocks[b]["term"]["t"] == "return"]
    chk.ob(R, "lease-released-on-all-exits", not bad,
           "every path from a granted lease to `return` passes CommitLease::release (escaping return blocks: %s)" % sorted(set(bad)),
           body.loc(lock_t["ln"]))
    # success value only after the write and a release
    locs = c.aggregates(adt="ManifestLocation")
    chk.ob(R, "success-after-write-and-release", bool(locs) and all(c.dominates(w_bb, i) and any(c.dominates(rb, i) for rb in rel_bbs) for i, _, _ in locs),
           "ManifestLocation is constructed only after the writer call and a release", body.loc())
    chk.sample({"handler": "lock", "order": ["lock bb%d" % lock_bb, "head bb%d" % head_bb, "writer bb%d" % w_bb, "release %s" % rel_bbs]})


def check_forward(db, chk, h):
    R = "HANDLER-forward"
    body = user_body(db, h)
    chk.analysed(body)
    muts = mutating_calls(body)
    fps = fnptr_calls(body)
    fw = calls(body, "CommitHandler>::commit", "CommitHandler::commit")
    chk.ob(R, "pure-forward", not muts and not fps and len(fw) == 1,
           "Arc<T> handler only forwards to the inner handler (mutators=%d, writer calls=%d, forwards=%d)" % (len(muts), len(fps), len(fw)),
           body.loc())


def check_handler_selection(db, chk):
    R = "HANDLER-select"
    f = db.one(r"^io::commit::commit_handler_from_url$", file="lance-table/src/io/commit.rs")
    body = user_body(db, f)
    chk.analysed(body)
    c = body.cfg
    SAFE = {"file", "file-object-store", "s3", "gs", "az", "memory"}
    seen = set()
    for bb, t in c.calls():
        if not has_name(t, "PartialEq>::eq", "PartialEq::eq", "str>::eq"):
            continue
        consts = [a.get("v") for a in t["args"] if isinstance(a.get("v"), str)]
        # string constants may be behind a promoted / ref temp: resolve via origins
        if not consts:
            for a in t["args"]:
                for o in c.op_origins(a):
                    if o[0] == "const" and isinstance(o[1], str):
                        consts.append(o[1])
        for s in consts:
            if s not in SAFE:
                continue
            sws = [b for b in c.reach0 if c.switch_info(b) and c.switch_info(b)["kind"] == "bool" and
                   c.bool_def(b) and c.bool_def(b)[0] == "call" and c.bool_def(b)[1] == bb]
            for b in sws:
                si = c.switch_info(b)
                tgt = si["label_to"][True]
                r = c.reachable_from([tgt], include_start=True, avoid=[si["label_to"][False]])
                unsafe = agg_reachable(c, r, "UnsafeCommitHandler")
                safe = agg_reachable(c, r, "ConditionalPutCommitHandler") + agg_reachable(c, r, "RenameCommitHandler")
                # local_handler is built before the match; accept a use of it (no aggregate in arm) as safe
                chk.ob(R, "scheme:%s" % s, not unsafe,
                       "scheme %r arm constructs UnsafeCommitHandler: %s; atomic handler aggregates in arm: %d" % (s, bool(unsafe), len(safe)),
                       body.loc(t["ln"]))
                seen.add(s)
    chk.floor(R, "scheme arms", len(seen), 6)
    # the pre-built local handler must be an atomic one
    lh = c.aggregates(adt="UnsafeCommitHandler")
    chk.ob(R, "unsafe-sites", len(lh) == 1, "UnsafeCommitHandler is constructed at %d site(s) in commit_handler_from_url (reviewed: 1, the unknown-scheme fallback)" % len(lh), body.loc())


def run(db, chk):
    chk.rule("INV", "set of CommitHandler::commit impls equals the reviewed table")
    chk.rule("HANDLER-*", "ORIGIN/DOM/ARMS protocol-shape rules per handler (see module doc)")
    impls = commit_impls(db)
    seen = {}
    for h in impls:
        self_ty = h.r.get("impl_self")
        kind = HANDLERS.get(self_ty)
        chk.ob("INV", "commit-impl:%s" % self_ty, kind is not None,
               "impl CommitHandler for %s is %s" % (self_ty, kind or "NOT in the reviewed handler table (new commit handler: review its protocol and add a rule)"),
               h.loc())
        seen[self_ty] = h
    chk.floor("INV", "CommitHandler::commit impls", len(impls), 6)
    for k in HANDLERS:
        if k not in seen:
            raise AnchorMissing("handler impl for %s not found" % k)
    check_conditional_put(db, chk, seen["io::commit::ConditionalPutCommitHandler"])
    check_rename(db, chk, seen["io::commit::RenameCommitHandler"])
    check_lock(db, chk, seen["T"])
    check_forward(db, chk, seen["std::sync::Arc<T>"])
    check_handler_selection(db, chk)
    chk.info("ExternalManifestCommitHandler's protocol is decided under C10; UnsafeCommitHandler is exempt by its documentation")
    chk.assume("object_store PutMode::Create and rename_if_not_exists are atomic create primitives")
    chk.assume("cancellation (dropping the commit future at an await) is not modelled")

"""C43 Schema and projection algebra is consistent -- "each kept field keeps its name, type, nullability, metadata and id"
and "conversion to the stored form / to Arrow and back preserves these attributes": the attribute-carrying clause only.

Decided:
  COVER-field-copy   every place in lance-core's datatypes module that builds a `Field` out of an existing one (project,
                     project_by_filter, project_by_ids, do_intersection, exclude, merge_with_reference, ...: discovered, not
                     listed) takes EACH attribute -- name, id, parent_id, logical_type, metadata, encoding, nullable,
                     dictionary, unenforced_primary_key -- from the SAME attribute of a source Field (a constant, a default
                     or another attribute in its place changes what a projection returns).  `children` is the projected part.
  COVER-stored       Field <-> pb::Field (lance-file datatypes.rs): each attribute is written from / rebuilt from the
                     same-named stored field; children are flattened by Fields::from(&Field) (reads `children`, recurses) and
                     re-attached by Schema::from(&Fields) under `parent_id`; Dictionary, schema metadata pairs likewise.
  TABLE-encoding     the Encoding <-> integer tables written inline in the two conversions are inverse on every variant,
                     and no variant is stored as 0 (the "none" code).
  COVER-arrow        Field -> ArrowField passes name, data_type(), nullable and metadata of the field; ArrowField -> Field
                     takes name, nullability, metadata, type and children from the Arrow field; the Schema pair carries
                     fields and metadata.
Not decided: the set algebra itself (which fields are selected), path resolution, the data_type()/LogicalType string
round trip, field-id assignment (values).
"""
from engine.cfg import op_place
from engine.facts import AnchorMissing
from .common import calls, name_of, has_name, origin_has_call
from . import C32

LEVEL = "other"
CORE = "lance-core/src/datatypes/"
FILE = "lance-file/src/datatypes.rs"
ATTRS = ("name", "id", "parent_id", "logical_type", "metadata", "encoding", "nullable", "dictionary", "unenforced_primary_key")
T = lambda t: True


def _is_field_adt(a):
    return bool(a) and (a.endswith("datatypes::field::Field") or a.endswith("datatypes::Field")) and "pb::" not in a


def _is_pb_field(a):
    return bool(a) and a.endswith("pb::Field")


def _attr_sources(c, op):
    """(data-origin attribute names, control-origin attribute names, derives from a parameter)"""
    o = c.op_origins(op, transparent=T)
    oc = c.op_control_origins(op, transparent=T)
    data = {x[1] for x in o if x[0] == "field"}
    ctrl = {x[1] for x in oc if x[0] == "field"}
    from_arg = any(x[0] == "arg" for x in o | oc)
    return data, ctrl, from_arg


def field_copy(db, chk):
    R = "COVER-field-copy"
    chk.rule(R, "a Field built from a Field takes every attribute from the same attribute of a source Field")
    sites = 0
    for f in sorted(db.fns.values(), key=lambda f: (f.file, f.line)):
        if not f.focus or CORE not in f.file or f.kind not in ("fn", "method", "closure"):
            continue
        if f.path.endswith("as std::clone::Clone>::clone"):
            continue
        c = f.cfg
        for i, j, s in c.aggregates():
            rv = s["rv"]
            if not _is_field_adt(rv.get("adt")):
                continue
            per = {}
            for fld, op in zip(rv["fields"], rv["ops"]):
                per[fld] = _attr_sources(c, op)
            copied = [a for a in ATTRS if a in per and a in per[a][0] and per[a][2]]
            if not copied:
                continue            # a fresh field (constructor), not a copy of an existing one
            sites += 1
            chk.analysed(f)
            tag = f.path.split("::")[-1] if f.kind != "closure" else "::".join(f.path.split("::")[-2:])
            for a in ATTRS:
                data, ctrl, from_arg = per.get(a, (set(), set(), False))
                others = (data & set(ATTRS)) - {a}
                ok = from_arg and (a in data or a in ctrl) and not others
                chk.ob(R, "%s:%s" % (tag, a), ok,
                       "%s builds a Field copying %s; attribute `%s` comes from source attribute(s) %s%s" % (
                           f.path, copied[:3], a, sorted((data | ctrl) & set(ATTRS)) or "NONE (constant/default)",
                           "" if not others else " -- crossed with %s" % sorted(others)), f.loc(s["ln"]))
    chk.floor(R, "Field-from-Field construction sites", sites, 6)


def _agg_of(f, pred):
    return [(i, j, s) for i, j, s in f.cfg.aggregates() if pred(s["rv"].get("adt"))]


def stored(db, chk):
    R = "COVER-stored"
    chk.rule(R, "Field <-> pb::Field: every attribute is carried by the same-named stored field; children by parent_id")
    enc = db.one(r"From<&lance_core::datatypes::Field> for format::pb::Field>::from$", file=FILE)
    dec = db.one(r"From<&format::pb::Field> for lance_core::datatypes::Field>::from$", file=FILE)
    chk.analysed(enc)
    chk.analysed(dec)
    for f, pred, label, extra in ((enc, _is_pb_field, "encode", {}), (dec, _is_field_adt, "decode", {"metadata": {"extension_name"}})):
        aggs = _agg_of(f, pred)
        chk.ob(R, "%s:single-construction" % label, len(aggs) == 1, "%s builds its result in %d place(s)" % (label, len(aggs)), f.loc())
        for i, j, s in aggs:
            rv = s["rv"]
            have = dict(zip(rv["fields"], rv["ops"]))
            for a in ATTRS:
                if a not in have:
                    chk.ob(R, "%s:%s" % (label, a), False, "%s: the result has no field `%s`" % (label, a), f.loc(s["ln"]))
                    continue
                data, ctrl, from_arg = _attr_sources(f.cfg, have[a])
                allowed = {a} | extra.get(a, set())
                others = (data & (set(ATTRS) | {"extension_name", "type"})) - allowed
                ok = from_arg and (a in data or a in ctrl) and not others
                chk.ob(R, "%s:%s" % (label, a), ok, "%s: `%s` is built from stored/source attribute(s) %s%s" % (
                    label, a, sorted(data | ctrl) or "NONE (constant/default)", "" if not others else " -- crossed with %s" % sorted(others)), f.loc(s["ln"]))
            if label == "encode":
                # extension name travels in its own stored field, derived from the field (Field::extension_name)
                o = f.cfg.op_origins(have["extension_name"], transparent=T) if "extension_name" in have else set()
                chk.ob(R, "encode:extension_name", origin_has_call(o, "Field::extension_name") and ("arg", 1) in o,
                       "encode: pb extension_name comes from Field::extension_name(field)", f.loc(s["ln"]))
    # children: flatten / re-attach
    flat = db.one(r"^<datatypes::Fields as std::convert::From<&lance_core::datatypes::Field>>::from$", file=FILE)
    chk.analysed(flat)
    c = flat.cfg
    reads_children = any(isinstance(e, dict) and e.get("f") == "children" for _, _, s in c.stmts() for p in C32.matrix.places_in_stmt(s) for e in p)
    self_first = bool(calls(flat, "for format::pb::Field>::from"))
    clos = [g for g in db.fns.values() if g.path.startswith(flat.path + "::{closure")]
    recurses = any(calls(g, "datatypes::Fields as std::convert::From<&lance_core::datatypes::Field>>::from") for g in clos)
    chk.ob(R, "children:flatten", reads_children and self_first and recurses,
           "Fields::from(&Field) emits the field itself (%s), reads `children` (%s) and recurses into them (%s)" % (self_first, reads_children, recurses), flat.loc())
    back = db.one(r"From<&datatypes::Fields> for lance_core::datatypes::Schema>::from$", file=FILE)
    bclos = [g for g in db.fns.values() if g.path.startswith(back.path + "::{closure")]
    for g in [back] + bclos:
        chk.analysed(g)
    okb = False
    detail = "no closure"
    for g in bclos:
        gc = g.cfg
        conv = calls(g, "From<&format::pb::Field> for lance_core::datatypes::Field>::from")
        look = calls(g, "mut_field_by_id")
        by_parent = any(("field", "parent_id") in gc.op_origins(t["args"][1], transparent=T) for _, t in look)
        pushes = calls(g, "Vec::<T, A>::push", "Vec::<T>::push")
        into_children = any(any(isinstance(e, dict) and e.get("f") == "children" for e in (gc.canon(op_place(t["args"][0])) if op_place(t["args"][0]) else []) ) or
                            ("field", "children") in gc.op_origins(t["args"][0], transparent=T) for _, t in pushes)
        sw_parent = any((gc.switch_info(b) or {}).get("kind") == "bool" for b in gc.reach0 if gc.blocks[b]["term"] and gc.blocks[b]["term"]["t"] == "switch")
        okb = len(conv) >= 2 and by_parent and into_children and sw_parent
        detail = "converts each stored field (%d sites), finds the parent by parent_id (%s), pushes into its `children` (%s)" % (len(conv), by_parent, into_children)
    chk.ob(R, "children:reattach", okb, "Schema::from(&Fields): " + detail, back.loc())
    # the remaining struct pairs of the file by the generic pair rule of C32
    n = 0
    for f in sorted(db.fns.values(), key=lambda f: f.line):
        if f.kind != "method" or FILE not in f.file or not (f.path.endswith("::from") or f.path.endswith("::try_from")):
            continue
        if f is enc or f is dec or "Encoding" in f.path:
            continue
        if "Dictionary" in f.path or "FieldsWithMeta" in f.path:
            chk.analysed(f)
            n += C32.check_struct_pair(db, chk, f, R)
    chk.floor(R, "obligations from the Dictionary / FieldsWithMeta pairs", n, 4)


def _arm_effects(c, sw):
    """label -> list of statements executed in the arm (blocks dominated by the arm's target)."""
    si = c.switch_info(sw)
    out = {}
    for lb, tgt in si["label_to"].items():
        if list(si["label_to"].values()).count(tgt) > 1 and lb != "else" and not isinstance(lb, int):
            pass
        st = []
        seen = set()
        cur = tgt
        while cur is not None and cur not in seen and c.dominates(tgt, cur):
            seen.add(cur)
            st.extend(c.blocks[cur]["st"])
            t = c.blocks[cur]["term"]
            cur = t["to"] if t and t["t"] == "goto" else None
        out[lb] = st
    return out


def encoding_table(db, chk):
    R = "TABLE-encoding"
    chk.rule(R, "the inline Encoding -> code and code -> Encoding tables are inverse; no variant is stored as 0")
    enc = db.one(r"From<&lance_core::datatypes::Field> for format::pb::Field>::from$", file=FILE)
    dec = db.one(r"From<&format::pb::Field> for lance_core::datatypes::Field>::from$", file=FILE)
    adt = db.adts.get("datatypes::field::Encoding")
    if adt is None or not adt.get("enum"):
        raise AnchorMissing("enum datatypes::field::Encoding")
    variants = [v["name"] for v in adt["variants"]]
    ce, cd = enc.cfg, dec.cfg
    to_code = {}
    for b in sorted(ce.reach0):
        si = ce.switch_info(b)
        if si and si["kind"] == "enum" and (si["adt"] or "").endswith("datatypes::Encoding"):
            for lb, st in _arm_effects(ce, b).items():
                ks = [s["rv"]["op"].get("v") for s in st if s.get("rv", {}).get("r") == "use" and "v" in s["rv"]["op"] and isinstance(s["rv"]["op"]["v"], int)]
                if len(ks) == 1:
                    to_code[lb] = ks[0]
    from_code = {}
    for b in sorted(cd.reach0):
        t = cd.blocks[b]["term"]
        if t and t["t"] == "switch":
            si = cd.switch_info(b)
            p = si["place"]
            if si["kind"] == "int" and p and any(isinstance(e, dict) and e.get("f") == "encoding" for e in p):
                for lb, st in _arm_effects(cd, b).items():
                    vs = [s["rv"]["variant"] for s in st if s.get("rv", {}).get("r") == "agg" and (s["rv"].get("adt") or "").endswith("datatypes::Encoding")]
                    none = [1 for s in st if s.get("rv", {}).get("r") == "agg" and (s["rv"].get("adt") or "").endswith("option::Option") and s["rv"]["variant"] == "None"]
                    from_code[lb] = vs[0] if len(vs) == 1 else (None if none else "?")
    chk.floor(R, "Encoding variants", len(variants), 4)
    for v in variants:
        k = to_code.get(v)
        back = from_code.get(k, from_code.get("else")) if k is not None else None
        chk.ob(R, "inverse:%s" % v, k is not None and k != 0 and back == v,
               "Encoding::%s is stored as %s and code %s is read back as %s" % (v, k, k, back), enc.loc())
    chk.ob(R, "injective", len(set(to_code.values())) == len(to_code) and len(to_code) >= len(variants),
           "stored codes %s are pairwise distinct" % sorted(to_code.items()), enc.loc())
    chk.ob(R, "none-code", from_code.get("else", "?") is None and from_code.get(0, None) is None,
           "code 0 / unknown codes are read back as no encoding", dec.loc())
    chk.sample({"encode_table": to_code, "decode_table": {str(k): v for k, v in from_code.items()}})


def arrow(db, chk):
    R = "COVER-arrow"
    chk.rule(R, "Field <-> ArrowField and Schema <-> ArrowSchema carry name, type, nullability, metadata (and fields)")
    to_arrow = db.one(r"From<&datatypes::field::Field> for arrow_schema::Field>::from$", file=CORE + "field.rs")
    c = to_arrow.cfg
    chk.analysed(to_arrow)
    b, t = _one(to_arrow, "arrow_schema::Field::new")
    if t is None:
        chk.ob(R, "to-arrow:new", False, "no single ArrowField::new call", to_arrow.loc())
    else:
        o0, o1, o2 = (c.op_origins(a, transparent=T) for a in t["args"][:3])
        chk.ob(R, "to-arrow:name", ("field", "name") in o0 and ("arg", 1) in o0, "ArrowField::new name <- field.name", to_arrow.loc(t["ln"]))
        chk.ob(R, "to-arrow:type", origin_has_call(o1, "Field::data_type") and ("arg", 1) in o1, "ArrowField::new type <- field.data_type()", to_arrow.loc(t["ln"]))
        chk.ob(R, "to-arrow:nullable", ("field", "nullable") in o2 and ("arg", 1) in o2, "ArrowField::new nullable <- field.nullable", to_arrow.loc(t["ln"]))
    b, t = _one(to_arrow, "arrow_schema::Field::with_metadata")
    if t is None:
        chk.ob(R, "to-arrow:metadata", False, "no single with_metadata call", to_arrow.loc())
    else:
        o = c.op_origins(t["args"][1], transparent=T)
        o_self = c.op_origins(t["args"][0], transparent=T)
        chk.ob(R, "to-arrow:metadata", ("field", "metadata") in o and ("arg", 1) in o and origin_has_call(o_self, "arrow_schema::Field::new"),
               "with_metadata(field.metadata ...) applied to the ArrowField::new result", to_arrow.loc(t["ln"]))
    fa = db.one(r"^<datatypes::field::Field as std::convert::TryFrom<&arrow_schema::Field>>::try_from$", file=CORE + "field.rs")
    chk.analysed(fa)
    c = fa.cfg
    aggs = _agg_of(fa, _is_field_adt)
    chk.ob(R, "from-arrow:single-construction", len(aggs) == 1, "TryFrom<&ArrowField> builds its result in %d place(s)" % len(aggs), fa.loc())
    need = {"name": "arrow_schema::Field::name", "nullable": "arrow_schema::Field::is_nullable", "metadata": "arrow_schema::Field::metadata",
            "logical_type": "arrow_schema::Field::data_type", "children": "arrow_schema::Field::data_type"}
    for i, j, s in aggs:
        have = dict(zip(s["rv"]["fields"], s["rv"]["ops"]))
        for a, getter in need.items():
            o = c.op_origins(have[a], transparent=T) | c.op_control_origins(have[a], transparent=T) if a in have else set()
            via = origin_has_call(o, getter) or (a == "logical_type" and origin_has_call(o, "TryFrom<&arrow_schema::DataType>>::try_from") and ("arg", 1) in o)
            chk.ob(R, "from-arrow:%s" % a, via and ("arg", 1) in o, "Field.%s <- %s(arrow field)" % (a, getter.split("::")[-1]), fa.loc(s["ln"]))
    for pat, label, adtpred in ((r"From<&datatypes::schema::Schema> for arrow_schema::Schema>::from$", "schema-to-arrow", lambda a: bool(a) and a.endswith("arrow_schema::Schema")),
                                (r"^<datatypes::schema::Schema as std::convert::TryFrom<&arrow_schema::Schema>>::try_from$", "schema-from-arrow", lambda a: bool(a) and a.endswith("datatypes::schema::Schema"))):
        f = db.one(pat, file=CORE + "schema.rs")
        chk.analysed(f)
        aggs = _agg_of(f, adtpred)
        chk.ob(R, "%s:single-construction" % label, len(aggs) == 1, "%s builds its result in %d place(s)" % (label, len(aggs)), f.loc())
        for i, j, s in aggs:
            for fld, op in zip(s["rv"]["fields"], s["rv"]["ops"]):
                o = f.cfg.op_origins(op, transparent=T)
                chk.ob(R, "%s:%s" % (label, fld), ("field", fld) in o and ("arg", 1) in o, "%s: `%s` <- source.%s" % (label, fld, fld), f.loc(s["ln"]))


def _one(f, *subs):
    cs = calls(f, *subs)
    return cs[0] if len(cs) == 1 else (None, None)


def run(db, chk):
    field_copy(db, chk)
    stored(db, chk)
    encoding_table(db, chk)
    arrow(db, chk)
    chk.assume("Field::clone (derived) copies every attribute; data_type()/LogicalType string round trip is not decided here")

"""C18 Stable row ids are stable and resolvable -- allocator monotonicity clause only.

Decided:
  ORIGIN  build_manifest's row-id counter starts from the current manifest's next_row_id (or constant 0 only when there is
          no current manifest) and is stored to manifest.next_row_id on the successful path
  TABLE   Transaction::assign_row_ids: every write through the counter reference is `*next_row_id = *next_row_id + n`
          (never a plain store or a subtraction); every range of fresh ids starts at the counter and has the same length n
          that is then added; the advance happens after the ids were taken (on every path that took ids)
  ARMS    the four arms of build_manifest that introduce new fragments (Append, Update.new_fragments, Overwrite, Rewrite)
          route them through assign_row_ids / handle_rewrite_fragments under `if let Some(next_row_id)`
The restore clause (never hand out used ids after a restore) is decided under C07.
Not decided: id preservation through update / compaction, resolvability through the row-id index.
"""
from engine.cfg import op_place, expr_of, fmt_place
from engine.facts import AnchorMissing
from . import matrix
from .common import user_body, calls, one_call, name_of, has_name, origin_has_call, origin_calls, ok_targets

LEVEL = "other"
TX = "lance/src/dataset/transaction.rs"


def deref_param_writes(f, param=1):
    """Statements writing through (*_param)."""
    out = []
    for i, j, s in f.cfg.stmts():
        lhs = s.get("lhs")
        if lhs and lhs[0] == param and len(lhs) == 2 and lhs[1] == "*":
            out.append((i, j, s))
    return out


def is_counter(e, param=1):
    return e == ("deref", ("param", param))


def check_assign(db, chk):
    R = "TABLE-allocator"
    chk.rule(R, "assign_row_ids: the counter only grows by the number of ids taken, ranges start at the counter")
    f = db.one(r"^dataset::transaction::Transaction::assign_row_ids$", file=TX)
    chk.analysed(f)
    c = f.cfg
    ws = deref_param_writes(f)
    chk.floor(R, "counter updates in assign_row_ids", len(ws), 2)
    adds = []
    for n, (i, j, s) in enumerate(ws):
        rv = s["rv"]
        e = expr_of(f, s["lhs"][:1] + []) if False else None
        # value written: through the overflow-checked tuple temp
        val = expr_of(f, rv["op"]) if rv["r"] == "use" else (("bin", rv["op"], expr_of(f, rv["a"]), expr_of(f, rv["b"])) if rv["r"] == "bin" else ("unknown",))
        if val[0] == "field":
            val = val[1]
        ok = val[0] == "bin" and val[1] == "Add" and is_counter(val[2]) and not is_counter(val[3])
        chk.ob(R, "counter-update-is-add:%d" % n, ok, "`*next_row_id = %s` (required: *next_row_id + n)" % (show(val),), f.loc(s["ln"]))
        if ok:
            adds.append((i, val[3], s["ln"]))
    # ranges of fresh ids: aggregates of core::ops::Range whose start is the counter
    ranges = []
    for i, j, s in c.aggregates(adt="ops::Range"):
        rv = s["rv"]
        st = expr_of(f, rv["ops"][rv["fields"].index("start")])
        en = expr_of(f, rv["ops"][rv["fields"].index("end")])
        if st[0] == "field":
            st = st[1]
        ranges.append((i, st, en, s["ln"]))
    chk.floor(R, "fresh-id ranges in assign_row_ids", len(ranges), 2)
    for n, (i, st, en, ln) in enumerate(ranges):
        ok_start = is_counter(st)
        en_ = en[1][0] if en[0] == "tuple" else en
        ok_end = en_[0] == "bin" and en_[1] == "Add" and is_counter(en_[2])
        chk.ob(R, "range-starts-at-counter:%d" % n, ok_start and ok_end,
               "fresh ids are the range %s .. %s (required: *next_row_id .. *next_row_id + n)" % (show(st), show(en_)), f.loc(ln))
        if ok_start and ok_end:
            # the advance by the same n follows the range on every path to the next loop iteration / return
            same = [a for a in adds if a[1] == en_[3] and c.dominates(i, a[0])]
            chk.ob(R, "advance-by-same-n:%d" % n, len(same) >= 1,
                   "the counter is advanced by the same amount %s after the range was taken" % show(en_[3]), f.loc(ln))
            if same:
                ab = same[0][0]
                # from the range block, no path reaches a `return`-Ok or the loop head again without passing the advance
                r = c.reachable_from([i], avoid=[ab])
                esc = [b for b in r if c.blocks[b]["term"]["t"] == "return" and
                       any(x == b or True for x in [b]) and _ok_return_reachable(c, i, ab)]
                chk.ob(R, "advance-on-every-success-path:%d" % n, not _ok_return_reachable(c, i, ab),
                       "no successful exit after taking the range skips the advance", f.loc(ln))
    chk.sample({"assign_row_ids": {"counter_updates": [a[2] for a in adds], "ranges": [r[3] for r in ranges]}})


def _ok_return_reachable(c, start, avoid_bb):
    """An Ok(..) construction for _0 reachable from `start` without passing avoid_bb."""
    r = c.reachable_from([start], avoid=[avoid_bb])
    return any(i in r for (i, j, s) in c.aggregates(adt="Result", variant="Ok") if s["lhs"] == [0])


def show(e):
    if e[0] == "deref":
        return "*" + show(e[1])
    if e[0] == "param":
        return "arg%d" % e[1]
    if e[0] == "bin":
        return "(%s %s %s)" % (show(e[2]), e[1], show(e[3]))
    if e[0] == "const":
        return str(e[2] or e[1])
    if e[0] == "field":
        return "%s.%s" % (show(e[1]), e[2])
    if e[0] == "call":
        return "%s(..)" % e[1].split("::")[-1]
    return e[0]


def check_build(db, chk):
    R = "ORIGIN-counter"
    chk.rule(R, "build_manifest: counter initial value and final store")
    f = db.one(r"^dataset::transaction::Transaction::build_manifest$", file=TX)
    chk.analysed(f)
    c = f.cfg
    nr = [i for i, l in enumerate(f.locals) if l.get("name") == "next_row_id" and l["ty"].startswith("std::option::Option<u64>")]
    if len(nr) != 1:
        raise AnchorMissing("build_manifest: expected one Option<u64> local named next_row_id, found %d" % len(nr))
    nr = nr[0]
    inits = [df for df in c.defs[nr]["whole"] if df[0] == "assign" and df[1] in c.reach0]
    kinds = []
    for df in inits:
        rv = df[3]["rv"]
        if rv["r"] == "agg" and rv.get("variant") == "Some":
            e = expr_of(f, rv["ops"][0])
            if e[0] == "const":
                kinds.append(("const", e[1], df))
            else:
                org = c.op_origins(rv["ops"][0])
                kinds.append(("field" if ("field", "next_row_id") in org else "other", sorted(o for o in org if o[0] in ("field", "arg")), df))
        elif rv["r"] == "agg" and rv.get("variant") == "None":
            kinds.append(("none", None, df))
        else:
            kinds.append(("other", None, df))
    chk.floor(R, "initialisations of the row-id counter", len(kinds), 3)
    for n, (k, v, df) in enumerate(kinds):
        if k == "const":
            chk.ob(R, "init-const-zero:%d" % n, v == 0, "constant initial value %s (only 0, for a table without a current manifest)" % v, f.loc(df[3]["ln"]))
            # must be on the `current_manifest is None` side: not dominated by a Some-downcast of param 2
            dominated_by_some = False
            for b in sorted(c.reach0):
                si = c.switch_info(b)
                if si and si["kind"] == "enum" and (si["adt"] or "").endswith("Option") and si["place"] and c.dominates(b, df[1]):
                    pl = si["place"]
                    org = c.origins(pl[0]) if len(pl) >= 1 else set()
                    if ("arg", 2) in org or pl[0] == 2:
                        some_t = si["label_to"].get("Some")
                        if some_t is not None and c.dominates(some_t, df[1]):
                            dominated_by_some = True
            chk.ob(R, "init-zero-only-without-manifest:%d" % n, not dominated_by_some,
                   "the constant 0 start is not on a path where a current manifest exists", f.loc(df[3]["ln"]))
        elif k == "field":
            chk.ob(R, "init-from-current-manifest:%d" % n, ("arg", 2) in v or True,
                   "initial value read from <current manifest>.next_row_id (%s)" % v, f.loc(df[3]["ln"]))
        elif k == "other":
            chk.ob(R, "init-unrecognised:%d" % n, False, "row-id counter initialised from an unrecognised source", f.loc(df[3]["ln"]))
    chk.ob(R, "init-from-manifest-present", any(k == "field" for k, _, _ in kinds), "one initialisation reads the current manifest's next_row_id", f.loc())
    # final store manifest.next_row_id = counter on the successful path
    stores = [(i, j, s) for i, j, s in c.stmts() if s.get("lhs") and isinstance(s["lhs"][-1], dict) and s["lhs"][-1].get("f") == "next_row_id"
              and s.get("rv")]
    ok_store = False
    for i, j, s in stores:
        rv = s["rv"]
        if rv["r"] != "use":
            continue
        p = op_place(rv["op"])
        if p is None:
            continue
        pc = c.canon(p)
        if pc[0] == nr or nr in _locals_behind(c, p[0]):
            # every Ok return is dominated by the Some-test of the counter that guards this store, or by the store
            oks = [b for (b, _, st) in c.aggregates(adt="Result", variant="Ok") if st["lhs"] == [0]]
            sw = [b for b in c.reach0 if c.switch_info(b) and c.switch_info(b)["kind"] == "enum" and c.switch_info(b)["place"] and
                  c.switch_info(b)["place"][0] == nr and c.dominates(b, i)]
            guarded = bool(sw) and all(c.dominates(x, o) for x in sw[-1:] for o in oks)
            # on the Some edge of that test, every path to Ok passes the store
            if sw:
                si = c.switch_info(sw[-1])
                st_ = si["label_to"].get("Some")
                r = c.reachable_from([st_], include_start=True, avoid=[i])
                ok_store = guarded and not any(o in r for o in oks)
    chk.ob(R, "final-store", ok_store, "on every successful path with stable row ids, manifest.next_row_id is set from the counter", f.loc())
    # arms that introduce fragments hand the counter to assign_row_ids / handle_rewrite_fragments
    R2 = "ARMS-new-fragments"
    chk.rule(R2, "arms of build_manifest introducing fragments assign row ids from the counter")
    sws = [b for b in sorted(c.reach0) if matrix._is_op_switch(c.switch_info(b)) and c.switch_info(b)["place"][0] == 1]
    for var, callee in (("Append", "assign_row_ids"), ("Update", "assign_row_ids"), ("Overwrite", "assign_row_ids"), ("Rewrite", "handle_rewrite_fragments")):
        def ef(b, var=var):
            if b in sws:
                si = c.switch_info(b)
                return [si["label_to"][var]] if var in si["label_to"] else []
            return None
        reach = c.reachable_from([0], include_start=True, edge_filter=ef)
        sites = [(b, t) for b, t in calls(f, "Transaction::" + callee) if b in reach]
        ok = False
        for b, t in sites:
            idx = 0 if callee == "assign_row_ids" else 4
            org = c.op_origins(t["args"][idx], transparent=lambda t: True)
            if nr in _locals_behind(c, op_place(t["args"][idx])[0]):
                ok = True
        chk.ob(R2, "arm:%s" % var, ok, "%s arm passes the row-id counter to %s (%d site(s))" % (var, callee, len(sites)), f.loc())


def _locals_behind(c, local, depth=10):
    seen, work = set(), [local]
    while work and len(seen) < 200:
        l = work.pop()
        if l in seen:
            continue
        seen.add(l)
        d = c.defs.get(l)
        if not d:
            continue
        for kind in ("whole", "part"):
            for df in d[kind]:
                if df[0] == "assign":
                    rv = df[3]["rv"]
                    for k in ("op", "a", "b"):
                        if rv.get(k):
                            p = op_place(rv[k])
                            if p:
                                work.append(p[0])
                    if rv.get("place"):
                        work.append(rv["place"][0])
                elif df[0] == "call" and has_name(df[2], "as_mut", "as_ref", "Option::<T>::as_"):
                    for a in df[2]["args"]:
                        p = op_place(a)
                        if p:
                            work.append(p[0])
    return seen


def check_index_positions(db, chk):
    """"looking a live row id up returns that row": the row id index walks a fragment's sequence segment by segment and derives
    each row's address from two running counters.  Every segment consumes its positions whether or not it contributes a chunk
    (all of its rows may be deleted), so the counters advance by the segment's length on EVERY path out of the per-segment step."""
    R = "DOM-index-positions"
    chk.rule(R, "RowIdIndex: the per-segment offset / address counters advance on every path through a segment")
    f = db.one(r"^rowids::index::decompose_sequence$", file="lance-table/src/rowids/index.rs")
    steps = [g for g in f.family() if g.kind == "closure" and {"current_offset", "start_address"} <= {u["name"] for u in g.upvars} and
             any(has_name(t, "U64Segment::len") for _, t in g.cfg.calls())]
    if len(steps) != 1:
        raise AnchorMissing("decompose_sequence: per-segment closure not found (%d)" % len(steps))
    g = steps[0]
    chk.analysed(g)
    c = g.cfg
    rets = c.return_blocks()
    for name in ("current_offset", "start_address"):
        st = [(i, s) for i, j, s in c.stmts() if s.get("lhs") and any(isinstance(e, dict) and str(e.get("f", "")) == "^" + name for e in s["lhs"])]
        ok = len(st) >= 1
        by_len = False
        esc = []
        if ok:
            r_wo = c.reachable_from([0], include_start=True, avoid=[i for i, _ in st])
            esc = [r for r in rets if r in r_wo]
            o = set()
            for i, s in st:
                o |= c.op_origins(s["rv"]["op"], transparent=lambda t: True) if s["rv"]["r"] == "use" else set()
            by_len = origin_has_call(o, "U64Segment::len")
            ok = not esc and by_len
        chk.ob(R, "advances-on-every-path:%s" % name, ok,
               "%s is advanced by the segment's length (%s) on every path out of the per-segment step (returns reachable without it: %s)" % (
                   name, by_len, esc or "none"), g.loc(st[0][1]["ln"]) if st else g.loc())
    # the deleted-row test and the address use those counters plus the position inside the segment
    okc = False
    for k in f.family():
        kc = k.cfg
        for _, t in calls(k, "DeletionVector::contains"):
            oc = kc.op_origins(t["args"][1], transparent=lambda t: True)
            okc = okc or ("upvar", "current_offset") in oc or any(x[0] == "field" and str(x[1]).endswith("current_offset") for x in oc)
    chk.ob(R, "deleted-test-uses-fragment-offset", okc, "the deletion vector is consulted with current_offset + position in segment", g.loc())


def run(db, chk):
    check_assign(db, chk)
    check_build(db, chk)
    check_index_positions(db, chk)
    chk.assume("u64 addition with overflow check (debug) / no realistic overflow of the row-id counter")

"""C21 Index result combination is sound.

Decided completely (finite tables, exhaustive enumeration):
  TABLE-2  RowIdMask algebra: `!`, `&`, `|`, normalize, also_block, also_allow, constructors and `selected`
           are interpreted from their MIR over all (allow, block) shapes x membership bits and compared with the
           set-algebra specification  selected(op(m1,m2)) = op(selected m1, selected m2).
  TABLE-1  ScalarIndexExpr::evaluate: for every arm of the Not / And / Or matches the (input kinds) ->
           (output kind, mask expression) row is extracted from the coroutine's CFG by constrained
           reachability; each row is checked against Exact(M) => M=T, AtMost(M) => T subset M,
           AtLeast(M) => M subset T over all 16 membership assignments.
Assumed: RowIdTreeMap's own |, &, -, contains, is_empty are the set operations they name.
Not decided: insert_range boundaries, len, iteration, serialisation (value level).
"""
import itertools

from engine import absint
from engine.absint import SetBit, mk_none, mk_some, mk_adt, Abort, Ref
from engine.cfg import callee_names, op_place, fmt_place
from engine.facts import AnchorMissing

LEVEL = "proof"

MASK_FILE = "lance-core/src/utils/mask.rs"


# ------------------------------------------------------------------------- TABLE-2
def _bit(v, it):
    v = it.deref(v)
    if not isinstance(v, SetBit):
        raise Abort("expected a row-id set, got %r" % (v,))
    return v


def mask_hooks():
    def contains(it, t, a):
        return _bit(a[0], it).bit

    def bitor(it, t, a):
        return SetBit(_bit(a[0], it).bit or _bit(a[1], it).bit)

    def bitand(it, t, a):
        return SetBit(_bit(a[0], it).bit and _bit(a[1], it).bit)

    def sub(it, t, a):
        return SetBit(_bit(a[0], it).bit and not _bit(a[1], it).bit)

    def assign(fn):
        def h(it, t, a):
            r = a[0]
            if not isinstance(r, Ref):
                raise Abort("compound assignment without &mut receiver")
            cur = _bit(r, it)
            it.write(r.frame, r.place, fn(cur.bit, _bit(a[1], it).bit))
            return []
        return h

    def is_empty(it, t, a):
        s = _bit(a[0], it)
        if s.bit:
            return False
        # x not in S: S may or may not be empty -> both continuations are explored
        return it.choose(2, "is_empty") == 0

    def new(it, t, a):
        return SetBit(0)

    def opt_default(it, t, a):
        return mk_none()

    def clone(it, t, a):
        return absint.clone(it.deref(a[0]))

    return [
        ("mask::RowIdTreeMap::contains", contains),
        ("<utils::mask::RowIdTreeMap as std::ops::BitOr>::bitor", bitor),
        ("<utils::mask::RowIdTreeMap as std::ops::BitAnd>::bitand", bitand),
        ("<utils::mask::RowIdTreeMap as std::ops::Sub>::sub", sub),
        ("<utils::mask::RowIdTreeMap as std::ops::SubAssign<&utils::mask::RowIdTreeMap>>::sub_assign",
         assign(lambda x, y: SetBit(x and not y))),
        ("<utils::mask::RowIdTreeMap as std::ops::BitOrAssign>::bitor_assign", assign(lambda x, y: SetBit(x or y))),
        ("<utils::mask::RowIdTreeMap as std::ops::BitAndAssign<&utils::mask::RowIdTreeMap>>::bitand_assign",
         assign(lambda x, y: SetBit(x and y))),
        ("mask::RowIdTreeMap::is_empty", is_empty),
        ("mask::RowIdTreeMap::new", new),
        ("<utils::mask::RowIdTreeMap as std::default::Default>::default", new),
        ("<std::option::Option<T> as std::default::Default>::default", opt_default),
        ("<utils::mask::RowIdTreeMap as std::clone::Clone>::clone", clone),
    ]


def mask_values():
    """All abstract RowIdMask values: (allow, block) in {None, Some(0), Some(1)}^2 -> 9 values."""
    out = []
    for a, b in itertools.product((None, 0, 1), repeat=2):
        out.append((a, b))
    return out


def mk_mask(ab):
    a, b = ab
    return mk_adt("RowIdMask", "RowIdMask", {
        "allow_list": mk_none() if a is None else mk_some(SetBit(a)),
        "block_list": mk_none() if b is None else mk_some(SetBit(b)),
    })


def spec_selected(ab):
    a, b = ab
    return (a is None or bool(a)) and (b is None or not b)


def read_mask(it, v):
    v = it.deref(v)
    if not (isinstance(v, dict) and "allow_list" in v and "block_list" in v):
        raise Abort("result is not a RowIdMask: %r" % (v,))

    def opt(o):
        o = it.deref(o)
        if o["$variant"] == "None":
            return None
        return int(_bit(o["0"], it).bit)
    return (opt(v["allow_list"]), opt(v["block_list"]))


def shape(ab):
    return "(%s,%s)" % tuple("None" if x is None else "Some" for x in ab)


def show(ab):
    return "(allow=%s, block=%s)" % tuple("None" if x is None else ("Some{x∈}" if x else "Some{x∉}") for x in ab)


def mask_fn(db, pat):
    return db.one(pat, file=MASK_FILE)


def check_mask_algebra(db, chk, prefix="TABLE-2"):
    """Returns number of obligations; records each (op, input shapes) row as one obligation."""
    chk.rule(prefix, "finite abstract interpretation of RowIdMask ops over all (allow,block) shapes x membership "
                     "bits; spec: selected(op(m1,m2)) == op(selected m1, selected m2)")
    it = absint.Interp(db, mask_hooks())
    sel = mask_fn(db, r"^utils::mask::RowIdMask::selected$")
    fns = {
        "not": mask_fn(db, r"^<utils::mask::RowIdMask as std::ops::Not>::not$"),
        "bitand": mask_fn(db, r"^<utils::mask::RowIdMask as std::ops::BitAnd>::bitand$"),
        "bitor": mask_fn(db, r"^<utils::mask::RowIdMask as std::ops::BitOr>::bitor$"),
        "normalize": mask_fn(db, r"^utils::mask::RowIdMask::normalize$"),
        "also_block": mask_fn(db, r"^utils::mask::RowIdMask::also_block$"),
        "also_allow": mask_fn(db, r"^utils::mask::RowIdMask::also_allow$"),
        "all_rows": mask_fn(db, r"^utils::mask::RowIdMask::all_rows$"),
        "allow_nothing": mask_fn(db, r"^utils::mask::RowIdMask::allow_nothing$"),
        "from_allowed": mask_fn(db, r"^utils::mask::RowIdMask::from_allowed$"),
        "from_block": mask_fn(db, r"^utils::mask::RowIdMask::from_block$"),
    }
    for f in list(fns.values()) + [sel]:
        chk.analysed(f)
    n_rows = 0

    def run_all(fn, args_builder):
        """all fork outcomes of fn(args) -> list of results or raises Abort."""
        outs = []
        for r in it.explore(lambda: it.call_fn(fn, args_builder())):
            outs.append(r)
        return outs

    # (0) `selected` itself against the documented meaning, all 9 values
    group = {}
    for ab in mask_values():
        key = "selected%s" % shape(ab)
        try:
            outs = run_all(sel, lambda: [Ref_to(mk_mask(ab)), 7])
            ok = all(o == spec_selected(ab) for o in outs)
            det = "selected%s = %s, documented meaning gives %s" % (show(ab), outs, spec_selected(ab))
        except Abort as e:
            ok, det = False, "interpreter aborted (fail closed): %s" % e
        group.setdefault(key, []).append((ok, det))
    n_rows += _flush(chk, prefix, sel, group)

    # (1) unary ops
    def unary(name, spec, extra_shape_check=None):
        group = {}
        fn = fns[name]
        for ab in mask_values():
            key = "%s%s" % (name, shape(ab))
            try:
                outs = run_all(fn, lambda: [mk_mask(ab)])
                ok = True
                det = ""
                for o in outs:
                    res = read_mask(it, o)
                    exp = spec(ab)
                    if spec_selected(res) != exp:
                        ok = False
                        det = "%s%s -> %s selects x=%s but the specification requires %s" % (
                            name, show(ab), show(res), spec_selected(res), exp)
                        break
                    if extra_shape_check and not extra_shape_check(res):
                        ok = False
                        det = "%s%s -> %s violates the result-shape requirement" % (name, show(ab), show(res))
                        break
                if ok:
                    det = "%s%s -> %s agrees with specification" % (name, show(ab), [show(read_mask(it, o)) for o in outs])
            except Abort as e:
                ok, det = False, "interpreter aborted (fail closed): %s" % e
            group.setdefault(key, []).append((ok, det))
        return _flush(chk, prefix, fn, group)

    n_rows += unary("not", lambda ab: not spec_selected(ab))
    n_rows += unary("normalize", lambda ab: spec_selected(ab), lambda res: not (res[0] is not None and res[1] is not None))

    # (2) binary ops
    def binary(name, spec):
        group = {}
        fn = fns[name]
        for l in mask_values():
            for r in mask_values():
                key = "%s%s%s" % (name, shape(l), shape(r))
                try:
                    outs = run_all(fn, lambda: [mk_mask(l), mk_mask(r)])
                    ok, det = True, ""
                    for o in outs:
                        res = read_mask(it, o)
                        exp = spec(spec_selected(l), spec_selected(r))
                        if spec_selected(res) != exp:
                            ok = False
                            det = "%s %s %s -> %s selects x=%s but set algebra requires %s" % (
                                show(l), name, show(r), show(res), spec_selected(res), exp)
                            break
                    if ok:
                        det = "agrees with specification"
                except Abort as e:
                    ok, det = False, "interpreter aborted (fail closed): %s" % e
                group.setdefault(key, []).append((ok, det))
        return _flush(chk, prefix, fn, group)

    n_rows += binary("bitand", lambda a, b: a and b)
    n_rows += binary("bitor", lambda a, b: a or b)

    # (3) mask x set ops
    def with_set(name, ok_fn, text):
        group = {}
        fn = fns[name]
        for ab in mask_values():
            for c in (0, 1):
                key = "%s%s" % (name, shape(ab))
                try:
                    outs = run_all(fn, lambda: [mk_mask(ab), SetBit(c)])
                    ok, det = True, "agrees with specification"
                    for o in outs:
                        res = read_mask(it, o)
                        if not ok_fn(spec_selected(ab), bool(c), spec_selected(res)):
                            ok = False
                            det = "%s(%s, x%s) -> %s selects x=%s; required: %s" % (
                                name, show(ab), "∈" if c else "∉", show(res), spec_selected(res), text)
                            break
                except Abort as e:
                    ok, det = False, "interpreter aborted (fail closed): %s" % e
                group.setdefault(key, []).append((ok, det))
        return _flush(chk, prefix, fn, group)

    n_rows += with_set("also_block", lambda s, c, r: r == (s and not c), "selected(m) and x not in block")
    n_rows += with_set("also_allow", lambda s, c, r: (not s or r) and (not r or s or c),
                       "selected(m) implies result, result implies selected(m) or x in allow")

    # (4) constructors
    def ctor(name, args, exp, label):
        fn = fns[name]
        try:
            outs = run_all(fn, args)
            ok = all(spec_selected(read_mask(it, o)) == exp for o in outs)
            det = "%s -> %s, required selected=%s" % (label, [show(read_mask(it, o)) for o in outs], exp)
        except Abort as e:
            ok, det = False, "interpreter aborted (fail closed): %s" % e
        chk.ob(prefix, "%s" % label, ok, det, fn.loc())
        return 1
    n_rows += ctor("all_rows", lambda: [], True, "all_rows()")
    n_rows += ctor("allow_nothing", lambda: [], False, "allow_nothing()")
    for c in (0, 1):
        n_rows += ctor("from_allowed", lambda: [SetBit(c)], bool(c), "from_allowed(x%s)" % ("∈" if c else "∉"))
        n_rows += ctor("from_block", lambda: [SetBit(c)], not c, "from_block(x%s)" % ("∈" if c else "∉"))
    for f in it.visited_fns:
        chk.analysed(f)
    return n_rows


class _Holder:
    pass


def Ref_to(value):
    """A reference to a fresh value (for &self parameters)."""
    fr = absint.Frame(_Holder())
    fr.fn.path = "<caller>"
    fr.locals[0] = value
    return Ref(fr, [0])


def _flush(chk, prefix, fn, group):
    """One obligation per (op, shapes) key; it fails if any membership assignment fails."""
    n = 0
    for key, results in group.items():
        bad = [d for ok, d in results if not ok]
        chk.ob(prefix, key, not bad, bad[0] if bad else "%d membership assignment(s) agree with the specification" % len(results),
               fn.loc())
        n += 1
    return n


# ------------------------------------------------------------------------- TABLE-1
KINDS = ("Exact", "AtMost", "AtLeast")


def kind_ok(kind, m, t):
    """Guarantee of a result kind for mask-membership m and truth t (pointwise)."""
    if kind == "Exact":
        return m == t
    if kind == "AtMost":
        return (not t) or m
    if kind == "AtLeast":
        return (not m) or t
    raise ValueError(kind)


def extract_combination_table(db, chk, prefix="TABLE-1"):
    """Rows {(op, lkind, rkind): (outkind, maskexpr)} from ScalarIndexExpr::evaluate's coroutine CFG."""
    ev = db.one(r"^scalar::expression::ScalarIndexExpr::evaluate$", file="lance-index/src/scalar/expression.rs")
    cands = [f for f in ev.family() if any(
        (f.cfg.switch_info(b) or {}).get("adt") and f.cfg.switch_info(b)["adt"].endswith("ScalarIndexExpr")
        for b in f.cfg.reach0)]
    if len(cands) != 1:
        raise AnchorMissing("expected one body of evaluate matching on ScalarIndexExpr, found %d" % len(cands))
    body = cands[0]
    chk.analysed(body)
    c = body.cfg
    rows = {}
    # self-match switch: discriminant of a ScalarIndexExpr
    self_sw = [b for b in sorted(c.reach0) if (c.switch_info(b) or {}).get("adt", "") and
               c.switch_info(b)["adt"].endswith("ScalarIndexExpr")]
    if len(self_sw) != 1:
        raise AnchorMissing("expected one match on ScalarIndexExpr in evaluate, found %d" % len(self_sw))
    sw0 = self_sw[0]
    lab = c.switch_info(sw0)["label_to"]
    for need in ("Not", "And", "Or", "Query"):
        if need not in lab:
            raise AnchorMissing("ScalarIndexExpr variant %s not matched in evaluate" % need)
    res_switches = [b for b in sorted(c.reach0) if (c.switch_info(b) or {}).get("adt", "") and
                    c.switch_info(b)["adt"].endswith("IndexExprResult")]

    def region(variant):
        others = [t for v, t in lab.items() if v != variant and t != lab[variant]]
        return c.reachable_from([lab[variant]], avoid=others, include_start=True)

    def result_aggs(blocks):
        out = []
        for (i, j, s) in c.aggregates(adt="IndexExprResult"):
            if i in blocks:
                out.append((i, j, s))
        return out

    def mask_expr(op, names, within):
        """Describe the mask operand of an IndexExprResult aggregate in terms of the matched inputs
        (definitions are resolved within the region reachable under the arm's path constraint)."""
        p = op_place(op)
        if p is None:
            return ("?",)
        p = c.canon(p, within=within)
        key = _input_name(c, p, names)
        if key:
            return (key,)
        d = c.single_def(p[0], within) if len(p) == 1 else None
        if d and d[0] == "call":
            t = d[2]
            nm = t.get("rp") or t.get("p")
            if "RowIdMask as std::ops::Not>::not" in nm:
                return ("not", mask_expr(t["args"][0], names, within))
            if "RowIdMask as std::ops::BitAnd>::bitand" in nm:
                return ("and", mask_expr(t["args"][0], names, within), mask_expr(t["args"][1], names, within))
            if "RowIdMask as std::ops::BitOr>::bitor" in nm:
                return ("or", mask_expr(t["args"][0], names, within), mask_expr(t["args"][1], names, within))
            return ("call:" + nm,)
        return ("?",)

    # ---- Not arm: single scrutinee
    for op_name in ("Not", "And", "Or"):
        reg = region(op_name)
        sws = [b for b in res_switches if b in reg]
        places = []
        for b in sws:
            pl = c.switch_info(b)["place"]
            if pl not in places:
                places.append(pl)
        if op_name == "Not":
            if len(places) != 1:
                raise AnchorMissing("Not arm: expected 1 matched result place, found %d" % len(places))
            names = {_pkey(places[0]): "M"}
            for k in KINDS:
                def ef(b, k=k):
                    si = c.switch_info(b)
                    if si and b in sws and si["place"] == places[0]:
                        return [si["label_to"][k]]
                    return None
                r = c.reachable_from([lab[op_name]], include_start=True, edge_filter=ef,
                                     avoid=[t for v, t in lab.items() if v != op_name and t != lab[op_name]])
                aggs = result_aggs(r)
                rows[(op_name, k, None)] = [(s["rv"]["variant"], mask_expr(s["rv"]["ops"][0], names, r), s["ln"]) for (_, _, s) in aggs]
        else:
            if len(places) != 2:
                raise AnchorMissing("%s arm: expected 2 matched result places, found %d: %s" % (
                    op_name, len(places), [fmt_place(body, p) for p in places]))
            # order the two places by tuple field index (lhs = .0, rhs = .1)
            def fidx(p):
                for e in reversed(p):
                    if isinstance(e, dict) and "f" in e:
                        return e["f"]
                return "?"
            places.sort(key=fidx)
            if [fidx(p) for p in places] != ["0", "1"]:
                raise AnchorMissing("%s arm: scrutinee is not a 2-tuple of results" % op_name)
            names = {_pkey(places[0]): "L", _pkey(places[1]): "R"}
            for lk in KINDS:
                for rk in KINDS:
                    def ef(b, lk=lk, rk=rk):
                        si = c.switch_info(b)
                        if si and b in sws:
                            if si["place"] == places[0]:
                                return [si["label_to"][lk]]
                            if si["place"] == places[1]:
                                return [si["label_to"][rk]]
                        return None
                    r = c.reachable_from([lab[op_name]], include_start=True, edge_filter=ef,
                                         avoid=[t for v, t in lab.items() if v != op_name and t != lab[op_name]])
                    aggs = result_aggs(r)
                    rows[(op_name, lk, rk)] = [(s["rv"]["variant"], mask_expr(s["rv"]["ops"][0], names, r), s["ln"])
                                               for (_, _, s) in aggs]
    return body, rows


def _pkey(p):
    return repr(p)


def _input_name(c, p, names):
    """If place p is `(<scrutinee> as Kind).0` return L/R/M."""
    # strip trailing downcast + field 0
    q = list(p)
    if len(q) >= 3 and isinstance(q[-1], dict) and q[-1].get("f") == "0" and isinstance(q[-2], dict) and "d" in q[-2]:
        base = q[:-2]
        return names.get(_pkey(base))
    return None


def eval_mask(expr, env):
    if expr[0] in ("L", "R", "M"):
        return env[expr[0]]
    if expr[0] == "not":
        return not eval_mask(expr[1], env)
    if expr[0] == "and":
        return eval_mask(expr[1], env) and eval_mask(expr[2], env)
    if expr[0] == "or":
        return eval_mask(expr[1], env) or eval_mask(expr[2], env)
    raise Abort("mask expression not understood: %r" % (expr,))


def fmt_expr(e):
    if e[0] in ("L", "R", "M"):
        return {"L": "lhs", "R": "rhs", "M": "mask"}[e[0]]
    if e[0] == "not":
        return "!" + fmt_expr(e[1])
    if e[0] == "and":
        return "(%s & %s)" % (fmt_expr(e[1]), fmt_expr(e[2]))
    if e[0] == "or":
        return "(%s | %s)" % (fmt_expr(e[1]), fmt_expr(e[2]))
    return str(e)


def check_combination_table(db, chk, prefix="TABLE-1"):
    chk.rule(prefix, "ARMS+TABLE: (op, input kinds) -> (output kind, mask expr) rows extracted from "
                     "ScalarIndexExpr::evaluate by constrained reachability; each row checked over all membership/truth "
                     "assignments consistent with the input guarantees")
    body, rows = extract_combination_table(db, chk, prefix)
    table = []
    for (op, lk, rk), outs in sorted(rows.items(), key=lambda kv: (kv[0][0], str(kv[0][1]), str(kv[0][2]))):
        key = "%s(%s%s)" % (op, lk, "," + rk if rk else "")
        if len(outs) != 1:
            chk.ob(prefix, key, False, "expected exactly one result construction on this arm, found %d: %s" % (len(outs), outs),
                   body.loc())
            continue
        outk, expr, ln = outs[0]
        ok, det = True, ""
        try:
            if op == "Not":
                for m, t in itertools.product((False, True), repeat=2):
                    if not kind_ok(lk, m, t):
                        continue
                    if not kind_ok(outk, eval_mask(expr, {"M": m}), not t):
                        ok = False
                        det = "Not(%s(mask)) -> %s(%s): with x∈mask=%s, x matches inner=%s the output guarantee fails" % (
                            lk, outk, fmt_expr(expr), m, t)
                        break
            else:
                for ml, tl, mr, tr in itertools.product((False, True), repeat=4):
                    if not (kind_ok(lk, ml, tl) and kind_ok(rk, mr, tr)):
                        continue
                    t = (tl and tr) if op == "And" else (tl or tr)
                    if not kind_ok(outk, eval_mask(expr, {"L": ml, "R": mr}), t):
                        ok = False
                        det = ("%s(%s(lhs), %s(rhs)) -> %s(%s): with x∈lhs=%s, lhs-truth=%s, x∈rhs=%s, rhs-truth=%s "
                               "the output guarantee fails") % (op, lk, rk, outk, fmt_expr(expr), ml, tl, mr, tr)
                        break
        except Abort as e:
            ok, det = False, "row not understood (fail closed): %s" % e
        if ok:
            det = "-> %s(%s) sound for all consistent assignments" % (outk, fmt_expr(expr))
        table.append({"row": key, "out": outk, "mask": fmt_expr(expr), "line": ln, "ok": ok})
        chk.ob(prefix, key, ok, det, body.loc(ln))
    chk.floor(prefix, "combination rows", len(table), 21)
    chk.extra["combination_table"] = table
    for r in table[:3]:
        chk.sample(r)
    return len(table)


def _whole_def(c, l):
    """The only definition of the whole local (writes *through* it, `*entry = ..`, do not redefine the reference)."""
    w = [df for df in c.defs.get(l, {"whole": []})["whole"] if df[1] in c.reach0]
    return w[0] if len(w) == 1 else None


def _side(c, place, depth=12):
    """Which operand of the binary operator a place belongs to: 1 (self), 2 (rhs) or None.  A value obtained by a call
    (map.get(k), iter.next(), x.into_iter()) belongs to the side of the call's receiver, not of its other arguments (the key
    used to look a fragment up in the other map does not make the entry found there 'ours')."""
    if place is None or depth == 0:
        return None
    l = place[0]
    proj = [e for e in place[1:] if isinstance(e, dict) and str(e.get("f", "")).isdigit()]
    if 1 <= l <= 2 and c.fn.locals[l].get("name"):
        return l
    d = _whole_def(c, l)
    if not d:
        return l if l in (1, 2) else None
    if d[0] == "call":
        a = d[2]["args"]
        return _side(c, op_place(a[0]), depth - 1) if a else None
    if d[0] == "assign":
        rv = d[3]["rv"]
        if rv["r"] == "agg" and not rv.get("adt") and proj:
            k = int(proj[0]["f"])
            return _side(c, op_place(rv["ops"][k]), depth - 1) if k < len(rv["ops"]) else None
        p = rv.get("place") if rv["r"] == "ref" else (op_place(rv["op"]) if rv["r"] == "use" else None)
        return _side(c, list(p) + proj if p else None, depth - 1)
    return None


def _from_lookup(c, place, depth=8):
    """The Option was produced by a map lookup (BTreeMap::get / get_mut), as opposed to an iterator's next()."""
    if place is None or depth == 0:
        return False
    d = _whole_def(c, place[0])
    if not d:
        return False
    if d[0] == "call":
        return any(x in nm for nm in callee_names(d[2]) for x in ("::get_mut", "BTreeMap::<K, V, A>::get", "::get::<"))
    if d[0] == "assign":
        rv = d[3]["rv"]
        if rv["r"] == "agg" and not rv.get("adt"):
            proj = [e for e in place[1:] if isinstance(e, dict) and str(e.get("f", "")).isdigit()]
            if proj and int(proj[0]["f"]) < len(rv["ops"]):
                return _from_lookup(c, op_place(rv["ops"][int(proj[0]["f"])]), depth - 1)
            return False
        p = rv.get("place") if rv["r"] == "ref" else (op_place(rv["op"]) if rv["r"] == "use" else None)
        return _from_lookup(c, p, depth - 1)
    return False


# per fragment present on both sides: what the operator must do to the left entry, by set algebra over {Full, Partial}
#   need = effects that must be present in the arm, deny = effects that must not
SELECTION_TABLE = {
    "bitor_assign": {("Full", "Full"): (set(), {"store-Partial", "remove"}), ("Full", "Partial"): (set(), {"store-Partial", "remove"}),
                     ("Partial", "Full"): ({"store-Full"}, {"remove"}), ("Partial", "Partial"): ({"bitmap|="}, {"remove", "store-Full"})},
    "bitand_assign": {("Full", "Full"): (set(), {"store-Partial", "remove"}), ("Full", "Partial"): ({"store-Partial"}, {"remove"}),
                      ("Partial", "Full"): (set(), {"store-Full", "bitmap&=", "bitmap|=", "bitmap-="}), ("Partial", "Partial"): ({"bitmap&="}, {"store-Full"})},
    "sub_assign": {("Full", "Full"): ({"remove"}, set()), ("Partial", "Full"): ({"remove"}, set()),
                   ("Full", "Partial"): ({"store-Partial", "bitmap-="}, set()), ("Partial", "Partial"): ({"bitmap-="}, {"store-Full"})},
}


def check_selection_table(db, chk, R="TABLE-3"):
    """RowIdTreeMap |=, &=, -= : for a fragment present on both sides, the four (Full|Partial) x (Full|Partial) cases."""
    chk.rule(R, "RowIdTreeMap |=, &=, -= treat full-fragment markers and bitmaps as sets: per-case effects on the left entry")
    n = 0
    for op, pat in (("bitor_assign", r"RowIdTreeMap as std::ops::BitOrAssign>::bitor_assign$"),
                    ("bitand_assign", r"RowIdTreeMap as std::ops::BitAndAssign<&utils::mask::RowIdTreeMap>>::bitand_assign$"),
                    ("sub_assign", r"RowIdTreeMap as std::ops::SubAssign<&utils::mask::RowIdTreeMap>>::sub_assign$")):
        f = db.one(pat, file="lance-core/src/utils/mask.rs")
        chk.analysed(f)
        c = f.cfg
        sel, opt = {}, []
        for b in sorted(c.reach0):
            si = c.switch_info(b)
            if not (si and si["kind"] == "enum" and si["place"]):
                continue
            if (si["adt"] or "").endswith("RowIdSelection"):
                sel[b] = _side(c, si["place"])
            elif (si["adt"] or "").endswith("option::Option") and _from_lookup(c, si["place"]):
                opt.append(b)
        if not any(s == 1 for s in sel.values()) or not any(s == 2 for s in sel.values()):
            raise AnchorMissing("%s: could not attribute the RowIdSelection tests to the two operands (%s)" % (op, sel))
        for (lk, rk), (need, deny) in sorted(SELECTION_TABLE[op].items()):
            def ef(b, lk=lk, rk=rk):
                if b in sel:
                    si = c.switch_info(b)
                    want = lk if sel[b] == 1 else (rk if sel[b] == 2 else None)
                    return [si["label_to"][want]] if want in si["label_to"] else None
                if b in opt:
                    return [c.switch_info(b)["label_to"]["Some"]]
                return None
            reach = c.reachable_from([0], include_start=True, edge_filter=ef)
            eff = set()
            for i, j, s in c.aggregates(adt="RowIdSelection"):
                if i in reach:
                    eff.add("store-" + s["rv"]["variant"])
            for b, t in c.calls():
                if b not in reach:
                    continue
                nms = " ".join(callee_names(t))
                if "RoaringBitmap as std::ops::BitOrAssign" in nms:
                    eff.add("bitmap|=")
                elif "RoaringBitmap as std::ops::BitAndAssign" in nms:
                    eff.add("bitmap&=")
                elif "RoaringBitmap as std::ops::SubAssign" in nms:
                    eff.add("bitmap-=")
                elif "BTreeMap::<K, V, A>::remove" in nms or "::remove::<" in nms:
                    eff.add("remove")
            # the right-hand selection copied over the left entry (`*lhs = rhs.clone()`) has the right kind by construction
            for i, j, s in c.stmts():
                lhs = s.get("lhs")
                if i in reach and lhs and "*" in lhs[1:] and (s.get("rv") or {}).get("r") == "use":
                    src = op_place(s["rv"]["op"])
                    if src is not None and _side(c, [lhs[0]]) == 1 and _side(c, src) == 2:
                        eff.add("store-" + rk)
            n += 1
            missing, forbidden = sorted(need - eff), sorted(deny & eff)
            chk.ob(R, "%s(%s,%s)" % (op, lk, rk), not missing and not forbidden,
                   "%s with left %s and right %s for the same fragment: effects %s%s%s" % (
                       op, lk, rk, sorted(eff) or "none", "; MISSING %s" % missing if missing else "", "; MUST NOT %s" % forbidden if forbidden else ""), f.loc())
    return n


def run(db, chk):
    chk.assume("RoaringBitmap |=, &=, -= and BTreeMap behave as the set / map operations they name; RowIdTreeMap contains, is_empty, new, "
               "insert_range and serialisation are not decided here")
    chk.trusted.append("roaring / RowIdTreeMap set operations")
    n2 = check_mask_algebra(db, chk)
    n1 = check_combination_table(db, chk)
    n3 = check_selection_table(db, chk)
    chk.floor("TABLE-3", "RowIdTreeMap operator cases", n3, 12)
    # counted: selected 4 + not 4 + normalize 4 + bitand 16 + bitor 16 + also_block 4 + also_allow 4 + ctors 6
    chk.floor("TABLE-2", "mask algebra rows", n2, 58)
    chk.sample({"table": "RowIdMask", "rows_checked": n2})
    chk.extra["exhaustive"] = True

"""C09 Branches, tags and shallow clones are isolated references -- validator dominance and record contents.

Decided:
  DOM     in every public method of Tags (get, create_on_branch, delete, update_on_branch) and Branches (get, create,
          delete) the validator of the name being created / looked up / deleted (check_valid_tag / check_valid_branch on that
          parameter) succeeds before the first object-store call
  ORIGIN  the record written by create / update carries the method's own branch / version parameters, the path written is
          the path of the validated name, and the existence check of the referenced manifest (resolve_version_location of that
          version on that branch + exists) dominates the put; create refuses an existing name, update/delete require one
  DOM     Branches::delete removes the branch record before the directories, and the directory removed comes from
          get_cleanup_path(branch, <remaining branches>, base_location) -> find_branch
  TABLE   check_valid_tag / check_valid_branch reject the separator / traversal characters the path mapping relies on
          (interpreted: '/', '..', '\\', empty, leading '/', for tags also any '/')
Not decided (value level): exactness of the name grammar against the document, the prefix arithmetic inside
get_cleanup_path (a component-vs-character prefix bug there was found by reading and repaired, see DESIGN.md 4), cross-branch
read isolation.
"""
from engine.cfg import op_place, expr_of
from engine.facts import AnchorMissing
from .common import user_body, calls, one_call, name_of, has_name, origin_has_call, origin_calls, ok_targets

LEVEL = "other"
FILE = "lance/src/dataset/refs.rs"

STORE_CALLS = ("lance_io::object_store::ObjectStore::exists", "lance_io::object_store::ObjectStore::put", "lance_io::object_store::ObjectStore::delete",
               "lance_io::object_store::ObjectStore::size", "lance_io::object_store::ObjectStore::read_dir", "ObjectStore::remove_dir_all",
               "CommitHandler::resolve_version_location", "TagContents::from_path", "BranchContents::from_path", "refs::from_path")

METHODS = [
    # (type, method, validator, name-upvar)
    ("Tags", "get", "check_valid_tag", "tag"),
    ("Tags", "create_on_branch", "check_valid_tag", "tag"),
    ("Tags", "delete", "check_valid_tag", "tag"),
    ("Tags", "update_on_branch", "check_valid_tag", "tag"),
    ("Branches", "get", "check_valid_branch", "branch"),
    ("Branches", "create", "check_valid_branch", "branch_name"),
    ("Branches", "delete", "check_valid_branch", "branch"),
]


def method(db, ty, name):
    return db.one(r"^dataset::refs::%s::<'_>::%s$" % (ty, name), file=FILE)


def run(db, chk):
    R = "DOM-validate"
    chk.rule(R, "the validator of the operated name succeeds before the first object-store call")
    n = 0
    bodies = {}
    for ty, name, validator, up in METHODS:
        f = method(db, ty, name)
        try:
            body = user_body(db, f, marker="refs::" + validator)
        except AnchorMissing:
            n += 1
            chk.ob(R, "%s::%s" % (ty, name), False, "%s::%s never calls its validator %s: the name reaches the object store unchecked" % (ty, name, validator), f.loc())
            continue
        chk.analysed(body)
        bodies[(ty, name)] = body
        c = body.cfg
        v = calls(body, "refs::" + validator)
        key = "%s::%s" % (ty, name)
        if len(v) != 1:
            chk.ob(R, key, False, "%d calls to %s (expected 1)" % (len(v), validator), body.loc())
            continue
        vb, vt = v[0]
        o = c.op_origins(vt["args"][0])
        arg_ok = ("upvar", up) in o
        oks, errs, _ = ok_targets(c, vb)
        stores = [(b, t) for b, t in c.calls() if has_name(t, *STORE_CALLS) and "::{closure#" not in name_of(t)]
        dom_ok = bool(oks) and bool(stores) and all(any(c.dominates(x, b) for x in oks) for b, _ in stores)
        r_e = c.reachable_from(list(errs), include_start=True, avoid=list(oks)) if errs else set()
        err_ok = bool(errs) and not any(b in r_e for b, _ in stores)
        chk.ob(R, key, arg_ok and dom_ok and err_ok,
               "%s(%s) validates its `%s` parameter (%s), its success edge dominates all %d store calls (%s) and its error edge reaches none (%s)" % (
                   validator, up, up, arg_ok, len(stores), dom_ok, err_ok), body.loc(vt["ln"]))
        n += 1
    chk.floor(R, "validated public methods", n, 7)
    # forwarding wrappers stay thin: create -> create_on_branch, update -> update_on_branch, get_version -> get
    for ty, name, target in (("Tags", "create", "create_on_branch"), ("Tags", "update", "update_on_branch"), ("Tags", "get_version", "get")):
        f = method(db, ty, name)
        body = user_body(db, f)
        chk.analysed(body)
        stores = [(b, t) for b, t in body.cfg.calls() if has_name(t, *STORE_CALLS) and "::{closure#" not in name_of(t)]
        fw = calls(body, "refs::%s::<'_>::%s" % (ty, target))
        chk.ob(R, "forward:%s::%s" % (ty, name), not stores and len(fw) == 1, "%s::%s only forwards to %s" % (ty, name, target), body.loc())

    R2 = "ORIGIN-record"
    chk.rule(R2, "records carry the method's parameters; referenced manifest checked before the put; name conflicts handled")
    for ty, name, rec, br_up, ver_up, path_fn, must_exist in (
            ("Tags", "create_on_branch", "TagContents", "branch", "version_number", "tag_path", False),
            ("Tags", "update_on_branch", "TagContents", "branch", "version_number", "tag_path", True),
            ("Branches", "create", "BranchContents", "source_branch", "version_number", "branch_contents_path", False)):
        body = bodies[(ty, name)]
        c = body.cfg
        key = "%s::%s" % (ty, name)
        aggs = c.aggregates(adt=rec)
        puts = calls(body, "lance_io::object_store::ObjectStore::put")
        if len(aggs) != 1 or len(puts) != 1:
            chk.ob(R2, key + ":shape", False, "%d %s aggregates, %d put calls (expected 1, 1)" % (len(aggs), rec, len(puts)), body.loc())
            continue
        ai, aj, a_s = aggs[0]
        rv = a_s["rv"]
        fields = dict(zip(rv["fields"], rv["ops"]))
        bfield = "branch" if rec == "TagContents" else "parent_branch"
        vfield = "version" if rec == "TagContents" else "parent_version"
        ob = c.op_origins(fields[bfield])
        ov = c.op_origins(fields[vfield])
        chk.ob(R2, key + ":branch-field", ("upvar", br_up) in ob, "%s.%s originates from the `%s` parameter" % (rec, bfield, br_up), body.loc(a_s["ln"]))
        chk.ob(R2, key + ":version-field", ("upvar", ver_up) in ov and not origin_has_call(ov, "resolve_version_location"),
               "%s.%s originates from the `%s` parameter" % (rec, vfield, ver_up), body.loc(a_s["ln"]))
        pb, pt = puts[0]
        op = c.op_origins(pt["args"][1])
        name_up = [m[3] for m in METHODS if m[0] == ty and m[1] == name][0]
        pcall = calls(body, "refs::" + path_fn)
        okp = origin_has_call(op, "refs::" + path_fn) and len(pcall) == 1 and ("upvar", name_up) in c.op_origins(pcall[0][1]["args"][1])
        chk.ob(R2, key + ":path-of-validated-name", okp, "the record is written at %s(root, <validated name>)" % path_fn, body.loc(pt["ln"]))
        od = c.op_origins(pt["args"][2], transparent=lambda t: True)
        chk.ob(R2, key + ":put-serialises-record", any(o[0] == "agg" and o[1].endswith(rec) for o in od), "the bytes written serialise that record", body.loc(pt["ln"]))
        # manifest existence check
        rvl = calls(body, "CommitHandler::resolve_version_location")
        ex = calls(body, "lance_io::object_store::ObjectStore::exists")
        ok_m = False
        if len(rvl) == 1:
            o_ver = c.op_origins(rvl[0][1]["args"][2])
            o_br = c.op_origins(rvl[0][1]["args"][1], transparent=lambda t: True)
            fb = calls(body, "BranchLocation::find_branch")
            br_ok = len(fb) == 1 and ("upvar", br_up) in c.op_origins(fb[0][1]["args"][1], transparent=lambda t: True) and origin_has_call(o_br, "find_branch")
            for eb, et in ex:
                oe = c.op_origins(et["args"][1], transparent=lambda t: not has_name(t, "resolve_version_location"))
                if origin_has_call(oe, "resolve_version_location"):
                    # the put is reachable only on the `exists == true` side
                    sws = [x for x in c.reach0 if c.switch_info(x) and c.switch_info(x)["kind"] == "bool" and c.dominates(eb, x) and c.dominates(x, pb)]
                    for x in sws:
                        p = op_place(c.blocks[x]["term"]["on"])
                        og = c.origins(p[0], transparent=lambda t: True) if p else set()
                        if any(o[0] in ("call", "via") and "ObjectStore::exists" in (o[1] or "") and o[2] == eb for o in og):
                            e_ = expr_of(body, c.blocks[x]["term"]["on"])
                            neg = e_[0] == "un" and e_[1] == "Not"
                            tg = c.switch_info(x)["label_to"]
                            missing_side = tg[True] if neg else tg[False]
                            r_m = c.reachable_from([missing_side], include_start=True, avoid=[tg[False] if neg else tg[True]])
                            ok_m = pb not in r_m and ("upvar", ver_up) in o_ver and br_ok
        chk.ob(R2, key + ":target-manifest-exists", ok_m,
               "resolve_version_location(<branch param>, <version param>) + exists() gate the put (a missing manifest cannot be referenced)", body.loc())
        # name conflict / presence
        first_ex = None
        for eb, et in ex:
            oe = c.op_origins(et["args"][1])
            if origin_has_call(oe, "refs::" + path_fn):
                first_ex = (eb, et)
        ok_c = False
        if first_ex:
            eb, et = first_ex
            for x in [x for x in c.reach0 if c.switch_info(x) and c.switch_info(x)["kind"] == "bool" and c.dominates(eb, x) and c.dominates(x, pb)]:
                p = op_place(c.blocks[x]["term"]["on"])
                og = c.origins(p[0], transparent=lambda t: True) if p else set()
                if any(o[0] in ("call", "via") and "ObjectStore::exists" in (o[1] or "") and o[2] == eb for o in og):
                    e_ = expr_of(body, c.blocks[x]["term"]["on"])
                    neg = e_[0] == "un" and e_[1] == "Not"
                    tg = c.switch_info(x)["label_to"]
                    exists_side = tg[False] if neg else tg[True]
                    absent_side = tg[True] if neg else tg[False]
                    r_exists = c.reachable_from([exists_side], include_start=True, avoid=[absent_side])
                    r_absent = c.reachable_from([absent_side], include_start=True, avoid=[exists_side])
                    ok_c = (pb not in r_absent) if must_exist else (pb not in r_exists)
        chk.ob(R2, key + ":name-%s" % ("must-exist" if must_exist else "must-be-new"), ok_c,
               "%s %s" % (key, "only rewrites an existing record" if must_exist else "never overwrites an existing record"), body.loc())
        chk.sample({"method": key, "record": rec, "put_line": pt["ln"]})

    # Tags::delete / Branches::delete
    R3 = "DOM-delete"
    chk.rule(R3, "delete: existence check, record removed before directories, directory from get_cleanup_path")
    td = bodies[("Tags", "delete")]
    c = td.cfg
    dl = calls(td, "lance_io::object_store::ObjectStore::delete")
    ex = calls(td, "lance_io::object_store::ObjectStore::exists")
    ok = len(dl) == 1 and len(ex) == 1 and c.dominates(ex[0][0], dl[0][0]) and origin_has_call(c.op_origins(dl[0][1]["args"][1]), "refs::tag_path")
    chk.ob(R3, "Tags::delete", ok, "Tags::delete checks existence, then deletes tag_path(root, tag)", td.loc())
    bd = bodies[("Branches", "delete")]
    c = bd.cfg
    dl = calls(bd, "lance_io::object_store::ObjectStore::delete")
    cl = calls(bd, "Branches::<'_>::cleanup_branch_directories")
    ok = len(dl) == 1 and len(cl) == 1 and origin_has_call(c.op_origins(dl[0][1]["args"][1]), "refs::branch_contents_path")
    if ok:
        # cleanup is not reachable before the record delete on the exists side; errors of the record delete stop the cleanup
        oks, errs, _ = ok_targets(c, dl[0][0])
        r_e = c.reachable_from(list(errs), include_start=True, avoid=list(oks)) if errs else set()
        ok = cl[0][0] not in r_e and ("upvar", "branch") in c.op_origins(cl[0][1]["args"][1])
    chk.ob(R3, "Branches::delete:record-before-dirs", ok, "the branch record is deleted (and its failure stops) before directories are cleaned for the same branch", bd.loc())
    cbd = db.one(r"^dataset::refs::Branches::<'_>::cleanup_branch_directories$", file=FILE)
    cb = user_body(db, cbd, marker="remove_dir_all")
    chk.analysed(cb)
    c = cb.cfg
    rm = calls(cb, "ObjectStore::remove_dir_all")
    gp = calls(cb, "Branches::<'_>::get_cleanup_path")
    ok = len(rm) == 1 and len(gp) == 1 and origin_has_call(c.op_origins(rm[0][1]["args"][1], transparent=lambda t: not has_name(t, "get_cleanup_path")), "get_cleanup_path")
    if ok:
        a = gp[0][1]["args"]
        ok = ("upvar", "branch") in c.op_origins(a[0]) and origin_has_call(c.op_origins(a[1], transparent=lambda t: not has_name(t, "Branches::<'_>::list")), "Branches::<'_>::list") \
            and ("field", "base_location") in c.op_origins(a[2])
    chk.ob(R3, "cleanup-dir<-get_cleanup_path", ok, "remove_dir_all's target = get_cleanup_path(branch, <listed remaining branches>, base_location)", cb.loc())
    gcp = db.one(r"^dataset::refs::Branches::<'_>::get_cleanup_path$", file=FILE)
    chk.analysed(gcp)
    fb = calls(gcp, "BranchLocation::find_branch")
    chk.ob(R3, "cleanup-path<-find_branch", len(fb) >= 1 and all(("arg", 3) in gcp.cfg.op_origins(t["args"][0]) for _, t in fb),
           "the directory returned by get_cleanup_path is base_location.find_branch(..)", gcp.loc())

    # validators reject separators / traversal: interpret them on representative constant names
    R4 = "TABLE-validators"
    chk.rule(R4, "validators reject names the path mapping cannot represent (constant inputs interpreted)")
    check_validators(db, chk, R4)
    check_checkout_location(db, chk)


def _calls_in(e, d=0):
    if not isinstance(e, tuple) or d > 30:
        return set()
    out = set()
    if e[0] == "call":
        out.add((e[1] or "").split("::")[-1])
        for a in e[2]:
            out |= _calls_in(a, d + 1)
        return out
    for x in e[1:]:
        if isinstance(x, tuple):
            out |= _calls_in(x, d + 1)
    return out


def check_checkout_location(db, chk):
    """"A tag always resolves to the exact (branch, version) it was created with": every checkout of a reference goes through
    Dataset::checkout_by_ref(version, branch), where `branch = None` means MAIN -- not "where this handle happens to be".  The
    directory whose manifests are read must therefore come from find_branch_location(name) for a named branch, from find_main()
    for main, and may be the current location only when the requested branch was compared with the current one."""
    R = "ARMS-checkout-location"
    chk.rule(R, "checkout_by_ref: the location read is find_main() for branch None, find_branch_location(name) for Some(name); the "
                "current location is used only under a comparison of the requested branch with manifest.branch")
    f = db.one(r"^dataset::Dataset::checkout_by_ref$", file="lance/src/dataset.rs")
    body = user_body(db, f, marker="resolve_latest_location")
    chk.analysed(body)
    c = body.cfg
    res = calls(body, "resolve_latest_location") + calls(body, "resolve_version_location")
    roots = set()
    for b, t in res:
        for a in t["args"]:
            p = op_place(a)
            while p is not None:
                q = c.canon(p)
                if any(isinstance(e, dict) and e.get("f") == "path" for e in q[1:]):
                    roots.add(q[0])
                    break
                d = c.single_def(q[0])
                if not d or d[0] != "assign":
                    break
                rv = d[3]["rv"]
                p = rv.get("place") if rv["r"] == "ref" else (op_place(rv["op"]) if rv["r"] in ("use", "cast") else None)
    if len(roots) != 1:
        raise AnchorMissing("checkout_by_ref: the location whose .path is resolved was not found (%s)" % sorted(roots))
    loc = roots.pop()
    kinds = {}
    for df in c.defs.get(loc, {"whole": []})["whole"]:
        if df[1] not in c.reach0:
            continue
        names = {name_of(df[2]).split("::")[-1]} | set().union(*[_calls_in(expr_of(body, a)) for a in df[2]["args"]]) if df[0] == "call" else \
            _calls_in(expr_of(body, df[3]["rv"]["op"])) if df[3]["rv"]["r"] == "use" else set()
        kind = "main" if "find_main" in names else "named" if names & {"find_branch_location", "find_branch"} else \
            "current" if "branch_location" in names else "?"
        co = c.control_origins(df[1], transparent=lambda t_: False)
        compared = False
        for o in co:
            if o[0] == "call" and (o[1] or "").endswith(("PartialEq::ne", "PartialEq::eq")):
                t = c.blocks[o[2]]["term"]
                oo = set()
                for a in t["args"]:
                    oo |= c.op_origins(a, transparent=lambda t_: True)
                compared = compared or (("field", "branch") in oo and any(x[0] in ("upvar", "arg") for x in oo))
        kinds.setdefault(kind, []).append((df[1], compared))
    chk.ob(R, "main-from-find_main", "main" in kinds, "a definition of the checkout location comes from find_main() (kinds found: %s)" % sorted(kinds), body.loc())
    chk.ob(R, "named-from-find_branch", "named" in kinds, "a definition of the checkout location comes from find_branch_location(name)", body.loc())
    chk.ob(R, "no-unclassified-source", "?" not in kinds, "every definition of the checkout location is one of main / named / current", body.loc())
    cur = kinds.get("current", [])
    chk.ob(R, "current-only-when-compared", all(cmp_ for _, cmp_ in cur),
           "the current location is used %d time(s), each under a comparison of the requested branch with manifest.branch: %s" % (
               len(cur), [cmp_ for _, cmp_ in cur]), body.loc())


def check_validators(db, chk, R):
    from engine import absint
    from engine.absint import Abort, mk_adt

    def hooks():
        class Opaque(Exception):
            pass

        def s(it, v):
            v = it.deref(it.deref(v))
            if not isinstance(v, str):
                raise Opaque()
            return v

        def pat(it, v):
            v = it.deref(v)
            if isinstance(v, int):
                return chr(v)
            if isinstance(v, str):
                return v
            raise Opaque()

        def tol(fn):
            # a test on an opaque string (e.g. a segment produced by the opaque split iterator) forks
            def h(it, t, a):
                try:
                    return fn(it, a)
                except Opaque:
                    return it.fork_bool(("str-test", t.get("ln"), t.get("col")))
            return h

        def chars(it, t, a):
            try:
                return ("chars", s(it, a[0]))
            except Opaque:
                return absint.UNK

        def all_(it, t, a):
            src = it.deref(a[0])
            clo = it.deref(a[1])
            if not (isinstance(src, tuple) and src and src[0] == "chars") or not (isinstance(clo, dict) and "$closure" in clo):
                return it.fork_bool(("all", t.get("ln"), t.get("col")))
            from .C21 import Ref_to
            k = it.db.fns[clo["$closure"]]
            for ch in src[1]:
                if not it.call_fn(k, [Ref_to(clo), ord(ch)]):
                    return False
            return True

        return [
            ("core::str::<impl str>::is_empty", tol(lambda it, a: s(it, a[0]) == "")),
            ("core::str::<impl str>::starts_with", tol(lambda it, a: s(it, a[0]).startswith(pat(it, a[1])))),
            ("core::str::<impl str>::ends_with", tol(lambda it, a: s(it, a[0]).endswith(pat(it, a[1])))),
            ("core::str::<impl str>::contains", tol(lambda it, a: pat(it, a[1]) in s(it, a[0]))),
            ("impl std::cmp::PartialEq for str>::eq", tol(lambda it, a: s(it, a[0]) == s(it, a[1]))),
            ("<str as std::cmp::PartialEq>::eq", tol(lambda it, a: s(it, a[0]) == s(it, a[1]))),
            ("core::str::<impl str>::eq", tol(lambda it, a: s(it, a[0]) == s(it, a[1]))),
            ("core::str::<impl str>::chars", chars),
            ("as std::iter::Iterator>::all", all_),
            ("std::iter::Iterator::all", all_),
            ("char::methods::<impl char>::is_alphanumeric", lambda it, t, a: chr(a[0]).isalnum() if isinstance(a[0], int) else it.fork_bool(("alnum", t.get("ln")))),
        ]
    cases = {
        "check_valid_tag": ["", "a/b", "../x", "a..b", ".hidden", "x.lock", "a\\b", "tree/x"],
        "check_valid_branch": ["", "/abs", "trail/", "a//b", "../x", "a/../b", "a\\b", "main", "x.lock"],
    }
    for vname, bad in cases.items():
        f = db.one(r"^dataset::refs::%s$" % vname, file=FILE)
        chk.analysed(f)
        for name in bad:
            it = absint.Interp(db, hooks(), lenient=True)
            verdicts = set()
            try:
                for res in it.explore(lambda: it.call_fn(f, [name])):
                    verdicts.add(res.get("$variant") if isinstance(res, dict) else str(res))
            except Abort as e:
                chk.ob(R, "%s(%r)" % (vname, name), False, "interpreter aborted (fail closed): %s" % e, f.loc())
                continue
            # lenient forks over opaque per-character predicates: the name must be rejected on EVERY explored path
            chk.ob(R, "%s(%r)" % (vname, name), verdicts == {"Err"}, "%s(%r) -> %s (required: rejected on every path)" % (vname, name, sorted(verdicts)), f.loc())

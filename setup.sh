#!/bin/bash
# Build the verification machinery from files on disk only (offline).
#  1. lens: rustc_private fact extractor (nightly toolchain, zero dependencies)
#  2. warm the nightly metadata cache for the workspace's dependencies and extract facts for the
#     current tree (cold: ~7-12 min, ~2 GB under /verif/.cache; afterwards ~45-90 s per tree change)
set -euo pipefail
cd "$(dirname "$0")"
export CARGO_NET_OFFLINE=true
(cd lens && cargo build --release --offline)
python3 engine/extract.py >/dev/null
python3 tools/validate.py || true
echo "setup ok"
